package c16

import (
	"bytes"
	"encoding/json"
	"fmt"

	"github.com/gmrtd/gmrtd/tlv"

	"verif/internal/refber"
	"verif/internal/vc"
)

func init() {
	vc.Register(&vc.Check{ID: "C16", Level: "exploration", Run: c16Run, Replay: c16Replay, QuickSec: 150, ThoroSec: 1200,
		Rule: "inputs: all byte strings of length <=3; all encodings of all trees with <=3 nodes over a tag/length-form/value alphabet (4 nodes thorough); every single-byte substitution, deletion and insertion of every <=2-node encoding; nesting/sibling ladders for the limits, and the count limit located exactly (bisection) and required to be the same for 9 element kinds (empty/non-empty primitive, empty definite/indefinite/context constructed, constructed with a child) x {flat, inside a definite, inside an indefinite constructed} x {all of that kind, primitives plus one of that kind}. Each input is decoded by the library and by the independent BER reference refber; accepted inputs are compared tree-to-tree, re-encoded, re-decoded, and looked up by (tag, occurrence). distinct_nontrivial = distinct inputs ACCEPTED by the library with >=1 node (hashed)",
		Assume: []string{"refber implements X.690 §8.1 TLV structure (independent, 200 lines), lenient on tag 00 with non-zero length and non-minimal tag numbers"}})
}

func c16Cmp(lib []tlv.TlvNode, ref []*refber.Node, path string) string {
	if len(lib) != len(ref) {
		return fmt.Sprintf("%s: library has %d element(s), BER assigns %d", path, len(lib), len(ref))
	}
	for i := range lib {
		p := fmt.Sprintf("%s/%d", path, i)
		if uint32(lib[i].Tag()) != ref[i].Tag {
			return fmt.Sprintf("%s: tag %x vs %x", p, lib[i].Tag(), ref[i].Tag)
		}
		switch n := lib[i].(type) {
		case *tlv.TlvConstructedNode:
			if !ref[i].Constructed {
				return p + ": library constructed, BER primitive"
			}
			if m := c16Cmp(n.Children(), ref[i].Children, p); m != "" {
				return m
			}
		case *tlv.TlvSimpleNode:
			if ref[i].Constructed {
				return p + ": library primitive, BER constructed"
			}
			if !bytes.Equal(n.Value(), ref[i].Value) {
				return fmt.Sprintf("%s: value %x vs %x", p, n.Value(), ref[i].Value)
			}
		default:
			return fmt.Sprintf("%s: unexpected node type %T", p, lib[i])
		}
	}
	return ""
}

type nodeLookup interface {
	NodeByTagOccur(tag tlv.TlvTag, occurrence int) tlv.TlvNode
}

// c16Lookup checks NodeByTagOccur at one level against the reference children.
func c16Lookup(l nodeLookup, libKids []tlv.TlvNode, ref []*refber.Node, path string) string {
	tags := map[uint32]bool{0x5A: true}
	for _, r := range ref {
		tags[r.Tag] = true
	}
	for t := range tags {
		for k := 1; k <= 3; k++ {
			var want *refber.Node
			cnt := 0
			idx := -1
			for i, r := range ref {
				if r.Tag == t {
					cnt++
					if cnt == k {
						want = r
						idx = i
						break
					}
				}
			}
			got := l.NodeByTagOccur(tlv.TlvTag(t), k)
			if want == nil {
				if got.IsValidNode() {
					return fmt.Sprintf("%s: lookup(tag %x, occurrence %d) returned an element though only %d exist", path, t, k, cnt)
				}
				continue
			}
			if !got.IsValidNode() {
				return fmt.Sprintf("%s: lookup(tag %x, occurrence %d) found nothing", path, t, k)
			}
			if !bytes.Equal(got.Encode(), libKids[idx].Encode()) || uint32(got.Tag()) != t {
				return fmt.Sprintf("%s: lookup(tag %x, occurrence %d) returned a different element", path, t, k)
			}
			// identity: must be the idx-th child, not an equal-looking sibling
			if got != libKids[idx] {
				return fmt.Sprintf("%s: lookup(tag %x, occurrence %d) returned another sibling than child #%d", path, t, k, idx)
			}
		}
	}
	for i, r := range ref {
		if r.Constructed {
			cn := libKids[i].(*tlv.TlvConstructedNode)
			if m := c16Lookup(cn, cn.Children(), r.Children, fmt.Sprintf("%s/%d", path, i)); m != "" {
				return m
			}
		}
	}
	return ""
}

// c16One runs all oracles on one input. Returns (key, what, accepted).
func c16One(x []byte) (key, what string, accepted bool) {
	var nodes *tlv.TlvNodes
	var err error
	if pv, _ := vc.Guard(func() { nodes, err = tlv.Decode(x) }); pv != nil {
		return "panic/decode", fmt.Sprintf("Decode(%x) panicked: %v", x, pv), false
	}
	if err != nil {
		return "", "", false
	}
	ref, rerr := refber.Decode(x)
	if rerr != nil {
		if rerr == refber.ErrTooDeep || rerr == refber.ErrUnspecified {
			return "", "", true
		}
		return "accept-nonber/" + c16ClassifyNonBer(x, rerr), fmt.Sprintf("Decode(%x) accepted, but BER assigns no tree: %v", x, rerr), true
	}
	if m := c16Cmp(nodes.Nodes(), ref, ""); m != "" {
		return "tree-mismatch", fmt.Sprintf("Decode(%x): %s", x, m), true
	}
	var e []byte
	if pv, _ := vc.Guard(func() { e = nodes.Encode() }); pv != nil {
		return "panic/encode", fmt.Sprintf("Encode after Decode(%x) panicked: %v", x, pv), true
	}
	want := refber.Canonical(ref)
	if !bytes.Equal(e, want) {
		return "encode-not-canonical", fmt.Sprintf("Decode(%x).Encode() = %x, definite minimal encoding of that tree is %x", x, e, want), true
	}
	n2, err2 := tlv.Decode(e)
	if err2 != nil {
		return "reencode-undecodable", fmt.Sprintf("Decode(%x).Encode() = %x cannot be decoded: %v", x, e, err2), true
	}
	if m := c16Cmp(n2.Nodes(), ref, ""); m != "" {
		return "reencode-tree-differs", fmt.Sprintf("Decode(Encode(Decode(%x))) differs: %s", x, m), true
	}
	if e2 := n2.Encode(); !bytes.Equal(e2, e) {
		return "encode-not-idempotent", fmt.Sprintf("Encode not idempotent on %x: %x then %x", x, e, e2), true
	}
	var lm string
	if pv, _ := vc.Guard(func() { lm = c16Lookup(nodes, nodes.Nodes(), ref, "") }); pv != nil {
		return "panic/lookup", fmt.Sprintf("lookup on Decode(%x) panicked: %v", x, pv), true
	}
	if lm != "" {
		return "lookup", fmt.Sprintf("Decode(%x): %s", x, lm), true
	}
	if de, err := tlv.DecodeEncode(x); err != nil || !bytes.Equal(de, e) {
		return "decodeencode-differs", fmt.Sprintf("DecodeEncode(%x) = %x,%v but Decode().Encode() = %x", x, de, err, e), true
	}
	return "", "", true
}

// c16ClassifyNonBer gives a narrow class for "library accepts, BER does not".
func c16ClassifyNonBer(x []byte, rerr error) string {
	s := rerr.Error()
	switch {
	case bytes.Contains([]byte(s), []byte("not terminated by end-of-contents")):
		return "indefinite-without-eoc"
	case bytes.Contains([]byte(s), []byte("end-of-contents octets inside")):
		return "eoc-in-definite"
	}
	return "other:" + s
}

// ---- grammar ----

type c16Tree struct {
	tag  []byte
	form int // 0 short, 1 0x81, 2 0x82 (non-minimal), 3 0x84, 4 indefinite
	val  []byte
	kids []*c16Tree
}

func (t *c16Tree) cons() bool { return t.tag[0]&0x20 != 0 }

func c16Enc(ts []*c16Tree) []byte {
	var out []byte
	for _, t := range ts {
		var body []byte
		if t.cons() {
			body = c16Enc(t.kids)
		} else {
			body = t.val
		}
		out = append(out, t.tag...)
		n := len(body)
		switch t.form {
		case 0:
			out = append(out, byte(n))
		case 1:
			out = append(out, 0x81, byte(n))
		case 2:
			out = append(out, 0x82, byte(n>>8), byte(n))
		case 3:
			out = append(out, 0x84, byte(n>>24), byte(n>>16), byte(n>>8), byte(n))
		case 4:
			out = append(out, 0x80)
			out = append(out, body...)
			out = append(out, 0, 0)
			continue
		}
		out = append(out, body...)
	}
	return out
}

// c16Forests enumerates all forests with exactly n nodes and depth <= maxDepth over the alphabets, calling f.
func c16Forests(n, maxDepth int, tags [][]byte, forms []int, vals [][]byte, f func([]*c16Tree)) {
	var forest func(n, depth int, emit func([]*c16Tree))
	var tree func(n, depth int, emit func(*c16Tree))
	tree = func(n, depth int, emit func(*c16Tree)) {
		for _, tg := range tags {
			cons := tg[0]&0x20 != 0
			for _, fm := range forms {
				if fm == 4 && !cons {
					continue
				}
				if !cons {
					if n != 1 {
						continue
					}
					for _, v := range vals {
						emit(&c16Tree{tag: tg, form: fm, val: v})
					}
				} else {
					if n-1 > 0 && depth >= maxDepth {
						continue
					}
					forest(n-1, depth+1, func(k []*c16Tree) {
						emit(&c16Tree{tag: tg, form: fm, kids: k})
					})
				}
			}
		}
	}
	forest = func(n, depth int, emit func([]*c16Tree)) {
		if n == 0 {
			emit(nil)
			return
		}
		for first := 1; first <= n; first++ {
			tree(first, depth, func(t *c16Tree) {
				forest(n-first, depth, func(rest []*c16Tree) {
					emit(append([]*c16Tree{t}, rest...))
				})
			})
		}
	}
	forest(n, 1, f)
}

func c16Run(c *vc.Ctx) {
	report := func(sec string, x []byte) bool {
		key, what, acc := c16One(x)
		if key != "" {
			xx := bytes.Clone(x)
			c.Violation(sec, key, what, vc.Hex(xx), func() bool { k, _, _ := c16One(xx); return k != "" })
			c.Outcome(sec, "mismatch")
		} else if acc {
			c.Outcome(sec, "accepted-conforming")
		} else {
			c.Outcome(sec, "rejected")
		}
		if acc && len(x) > 0 {
			c.DistinctBytes(x)
		}
		return acc
	}
	// (1) all byte strings of length <= 3
	sec1 := "all-bytes<=3"
	c.SecBound(sec1, "all 16 843 009 byte strings of length 0..3")
	for l := 0; l <= 3; l++ {
		total := 1 << (8 * l)
		for blk := 0; blk < total; blk += 65536 {
			if !c.Mine() {
				continue
			}
			buf := make([]byte, l)
			for v := blk; v < blk+65536 && v < total; v++ {
				xv := v
				for i := l - 1; i >= 0; i-- {
					buf[i] = byte(xv)
					xv >>= 8
				}
				report(sec1, buf)
			}
		}
	}
	// (2) grammar trees
	tags := [][]byte{{0x01}, {0x30}, {0x5F, 0x1F}, {0x7F, 0x49}, {0x00}, {0x7F, 0x81, 0x01}, {0x5F, 0xA1, 0x01}, {0x9F, 0x81, 0x81, 0x01}, {0xBF, 0xA1, 0x81, 0x01}}
	forms := []int{0, 1, 2, 3, 4}
	vals := [][]byte{{}, {0, 0}, {0xAA}}
	sec2 := "grammar<=3nodes"
	c.SecBound(sec2, "all forests with 1..3 nodes, depth<=3, tags {01,30,5F1F,7F49,00, 3-byte 7F8101 (constructed) and 5FA101 (primitive, 2nd octet has bit 6 set), 4-byte 9F818101 and BFA18101} x length forms {short,81,82,84,indefinite} x values {empty,0000,AA}")
	var twoNode [][]byte
	for n := 1; n <= 3; n++ {
		c16Forests(n, 3, tags, forms, vals, func(ts []*c16Tree) {
			if n <= 2 && c.Shard == 0 || n <= 2 {
				// keep <=2-node encodings for the mutation sweep (every worker enumerates them; cheap)
				twoNode = append(twoNode, c16Enc(ts))
			}
			if !c.Mine() {
				return
			}
			x := c16Enc(ts)
			report(sec2, x)
			if n == 3 && len(x) == 11 {
				c.Sample(map[string]any{"grammar_input": vc.Hex(x)})
			}
		})
	}
	if c.Thorough() {
		sec2b := "grammar-4nodes"
		tags4 := [][]byte{{0x04}, {0x30}, {0x1F, 0x81, 0x01}, {0x7F, 0x81, 0x81, 0x01}}
		c.SecBound(sec2b, "all forests with 4 nodes, depth<=4, tags {04,30,1F8101,7F818101} x forms {short,82,indefinite} x values {empty,AA}")
		c16Forests(4, 4, tags4, []int{0, 2, 4}, [][]byte{{}, {0xAA}}, func(ts []*c16Tree) {
			if !c.Mine() || c.Expired() {
				return
			}
			report(sec2b, c16Enc(ts))
		})
		if c.Expired() {
			c.SecNotExhaustive(sec2b, "deadline")
		}
	}
	// (3) mutation sweep over every <=2-node encoding
	sec3 := "mutations-of-<=2-node-encodings"
	c.SecBound(sec3, fmt.Sprintf("%d base encodings x (every position x 255 substitutions, every deletion, every position x 256 insertions)", len(twoNode)))
	for bi, base := range twoNode {
		if !c.Mine() {
			continue
		}
		if c.Expired() {
			c.SecNotExhaustive(sec3, fmt.Sprintf("deadline at base %d of %d", bi, len(twoNode)))
			break
		}
		m := make([]byte, len(base)+1)
		for p := 0; p < len(base); p++ {
			copy(m, base)
			for v := 1; v < 256; v++ {
				m[p] = base[p] ^ byte(v)
				report(sec3, m[:len(base)])
			}
			// deletion
			d := append(append([]byte{}, base[:p]...), base[p+1:]...)
			report(sec3, d)
		}
		for p := 0; p <= len(base); p++ {
			copy(m, base[:p])
			copy(m[p+1:], base[p:])
			for v := 0; v < 256; v++ {
				m[p] = byte(v)
				report(sec3, m)
			}
		}
	}
	// (4) limits: find the smallest refused nesting depth / element count and require monotone refusal beyond
	if c.Shard == 0 {
		sec4 := "limits"
		nest := func(d int, indef bool) []byte {
			// d nested 30 around one primitive
			x := []byte{0x04, 0x01, 0xAA}
			for i := 0; i < d; i++ {
				if indef && i%2 == 0 {
					x = append(append([]byte{0x30, 0x80}, x...), 0, 0)
				} else {
					x = append(append([]byte{0x30}, encLenC16(len(x))...), x...)
				}
			}
			return x
		}
		for _, indef := range []bool{false, true} {
			first := -1
			for d := 1; d <= 4200; d++ {
				x := nest(d, indef)
				_, err := tlv.Decode(x)
				c.Outcome(sec4, map[bool]string{true: "nest-refused", false: "nest-accepted"}[err != nil])
				if err != nil && first < 0 {
					first = d
				}
				if err == nil && first >= 0 {
					c.Violation(sec4, "limit/depth-not-monotone", fmt.Sprintf("nesting depth %d refused but %d accepted (indefinite=%v)", first, d, indef), map[string]any{"depth": d, "indef": indef}, nil)
					break
				}
				if err == nil {
					if k, w, _ := c16One(x); k != "" {
						c.Violation(sec4, k, w, vc.Hex(x), nil)
					}
				}
				if d > 300 {
					d += 97
				}
			}
			if first < 0 {
				c.Violation(sec4, "limit/no-depth-limit", fmt.Sprintf("nesting up to 4200 levels is accepted (indefinite=%v): no depth limit", indef), map[string]any{"indef": indef}, nil)
			}
			c.Extra(fmt.Sprintf("first_refused_depth_indef_%v", indef), first)
		}
		firstN := -1
		for _, n := range []int{10, 100, 1000, 5000, 9000, 9990, 10000, 10001, 10050, 12000, 20000, 50000, 120000} {
			var x []byte
			// n primitives inside one constructed (n+1 nodes) and flat
			for i := 0; i < n; i++ {
				x = append(x, 0x04, 0x00)
			}
			for _, wrap := range []bool{false, true} {
				y := x
				if wrap {
					y = append(append([]byte{0x30}, encLenC16(len(x))...), x...)
				}
				_, err := tlv.Decode(y)
				c.Outcome(sec4, map[bool]string{true: "count-refused", false: "count-accepted"}[err != nil])
				if err != nil && firstN < 0 {
					firstN = n
				}
				if err == nil && firstN >= 0 {
					c.Violation(sec4, "limit/count-not-monotone", fmt.Sprintf("%d elements refused but %d accepted", firstN, n), n, nil)
				}
				if err == nil {
					if k, w, _ := c16One(y); k != "" {
						c.Violation(sec4, k, w[:min(len(w), 200)], n, nil)
					}
				}
			}
		}
		if firstN < 0 {
			c.Violation(sec4, "limit/no-count-limit", "120000 elements are accepted: no element-count limit", nil, nil)
		}
		c.Extra("first_refused_element_count_in_ladder", firstN)
		// the count limit counts EVERY element, whatever its kind: find the smallest refused number of elements L with
		// flat empty primitives (bisection; monotone by the ladder above), then for every element kind and every way of
		// arranging it: L-1 elements (or the nearest below) must be accepted and L (or the nearest above) refused.
		if firstN > 0 {
			flat := func(unit []byte, n int) []byte { return bytes.Repeat(unit, n) }
			refused := func(x []byte) bool { _, err := tlv.Decode(x); return err != nil }
			lo, hi := 1, 2*firstN+2 // lo accepted, hi refused (the ladder's firstN may stem from the wrapped form: n+1 elements)
			if refused(flat([]byte{0x04, 0x00}, lo)) || !refused(flat([]byte{0x04, 0x00}, hi)) {
				c.HarnessError("count-limit bisection: bracket [%d,%d] is not (accepted, refused)", lo, hi)
			}
			for hi-lo > 1 {
				mid := (lo + hi) / 2
				if refused(flat([]byte{0x04, 0x00}, mid)) {
					hi = mid
				} else {
					lo = mid
				}
			}
			L := hi
			c.Extra("smallest_refused_element_count", L)
			kinds := []struct {
				name  string
				unit  []byte
				nodes int
			}{
				{"empty primitive", []byte{0x04, 0x00}, 1},
				{"primitive with value", []byte{0x04, 0x01, 0xAA}, 1},
				{"2-byte-tag primitive", []byte{0x5F, 0x0F, 0x00}, 1},
				{"empty constructed (definite)", []byte{0x30, 0x00}, 1},
				{"empty constructed (indefinite)", []byte{0x30, 0x80, 0x00, 0x00}, 1},
				{"empty context constructed", []byte{0xA1, 0x00}, 1},
				{"constructed with one primitive", []byte{0x30, 0x02, 0x04, 0x00}, 2},
				{"constructed with one empty constructed", []byte{0x30, 0x02, 0x31, 0x00}, 2},
				{"indefinite constructed with one primitive", []byte{0x30, 0x80, 0x04, 0x00, 0x00, 0x00}, 2},
			}
			for _, k := range kinds {
				for _, wrap := range []int{0, 1, 2} { // flat, inside one definite constructed, inside one indefinite constructed
					extra := 0
					if wrap > 0 {
						extra = 1
					}
					for _, filler := range []bool{false, true} { // all elements of this kind / primitives with ONE element of this kind at the end
						build := func(total int) ([]byte, int) {
							// total = wanted number of elements overall; returns the input and its real element count
							var body []byte
							n := 0
							if filler {
								prims := total - extra - k.nodes
								if prims < 0 {
									prims = 0
								}
								body = append(flat([]byte{0x04, 0x00}, prims), k.unit...)
								n = prims + k.nodes
							} else {
								cnt := (total - extra) / k.nodes
								body = flat(k.unit, cnt)
								n = cnt * k.nodes
							}
							switch wrap {
							case 1:
								body = append(append([]byte{0x31}, encLenC16(len(body))...), body...)
							case 2:
								body = append(append([]byte{0x31, 0x80}, body...), 0, 0)
							}
							return body, n + extra
						}
						for _, total := range []int{L - 1, L, L + 1, 2 * L} {
							x, n := build(total)
							got := refused(x)
							c.Eval(1)
							c.Outcome(sec4, map[bool]string{true: "count-refused", false: "count-accepted"}[got])
							if want := n >= L; got != want {
								c.Violation(sec4, "limit/count-depends-on-element-kind", fmt.Sprintf("%d elements (%s, wrap %d, filler %v) are %s although the count limit refuses %d flat primitives and accepts %d", n, k.name, wrap, filler, map[bool]string{true: "refused", false: "accepted"}[got], L, L-1), map[string]any{"kind": k.name, "wrap": wrap, "filler": filler, "elements": n}, nil)
							}
						}
					}
				}
			}
		}
	}
}

func encLenC16(n int) []byte {
	switch {
	case n < 0x80:
		return []byte{byte(n)}
	case n < 0x100:
		return []byte{0x81, byte(n)}
	case n < 0x10000:
		return []byte{0x82, byte(n >> 8), byte(n)}
	default:
		return []byte{0x83, byte(n >> 16), byte(n >> 8), byte(n)}
	}
}

func c16Replay(c *vc.Ctx, raw json.RawMessage) string {
	var doc struct {
		Section string          `json:"section"`
		Case    json.RawMessage `json:"case"`
	}
	json.Unmarshal(raw, &doc)
	var hx string
	if json.Unmarshal(doc.Case, &hx) != nil {
		return "case is not a hex input: " + string(doc.Case)
	}
	x := vc.Unhex(hx)
	key, what, acc := c16One(x)
	if key != "" {
		c.Violation(doc.Section, key, what, hx, nil)
	}
	nodes, err := tlv.Decode(x)
	enc := ""
	if err == nil {
		enc = vc.Hex(nodes.Encode())
	}
	return fmt.Sprintf("tlv.Decode(%s): accepted=%v err=%v re-encoded=%s; verdict: %s %s", hx, acc, err, enc, key, what)
}
