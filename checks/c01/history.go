package c01

// (f) histories of verifications on ONE Document object.
//
// PassiveAuth is specified on the document's current files. A caller (reader, verifier, host application) may verify a
// Document, replace a file and verify again; anything the library remembers between the two calls (memoised hashes,
// parsed-certificate caches, verdict fields) must not leak into the second verdict. The explorer therefore runs every
// ordered sequence of document states (the genuine state and all its depth-1 successors in the attacker model) on ONE
// Document that is re-loaded in place between the calls, and demands for the LAST call
//   - soundness:    Success only if the ground truth of the last state has no violated condition, and
//   - differential: the same Success as a FRESH Document loaded with the last state's files (no hand-written value).

import (
	"fmt"
	"sort"
	"strings"

	"github.com/gmrtd/gmrtd/cms"
	"github.com/gmrtd/gmrtd/document"
	"github.com/gmrtd/gmrtd/passiveauth"
	"verif/internal/vc"
)

type histCase struct {
	Kind   string  `json:"kind"`
	States []state `json:"states"`
}

// loadDoc replaces the files of doc by those of f (absent files are removed).
func loadDoc(doc *document.Document, f files) (stage string, err error) {
	doc.Mf.Lds1.Dg1, doc.Mf.Lds1.Dg13, doc.Mf.Lds1.Dg14, doc.Mf.Lds1.Dg15 = nil, nil, nil, nil
	doc.Mf.Lds1.Sod, doc.Mf.CardSecurity = nil, nil
	var nums []int
	for n := range f.dgs {
		nums = append(nums, n)
	}
	sort.Ints(nums)
	for _, n := range nums {
		if err = doc.NewDG(n, f.dgs[n]); err != nil {
			return fmt.Sprintf("NewDG%d", n), err
		}
	}
	if doc.Mf.Lds1.Sod, err = document.NewSOD(f.sod); err != nil {
		return "NewSOD", err
	}
	if f.cardSec != nil {
		if doc.Mf.CardSecurity, err = document.NewCardSecurity(f.cardSec); err != nil {
			return "NewCardSecurity", err
		}
	}
	return "", nil
}

// histRun verifies the states one after the other on one Document and returns the verdict of the last call.
func histRun(seq []state) verdict {
	var v verdict
	pv, stack := vc.Guard(func() {
		doc := &document.Document{}
		for i, s := range seq {
			f := concretise(s)
			v = verdict{}
			if stage, err := loadDoc(doc, f); err != nil {
				v.Stage, v.Err = stage, err.Error()
				continue
			}
			pool := &cms.GenericCertPool{}
			for _, d := range f.store {
				if err := pool.Add(d); err != nil {
					v.Stage, v.Err = "CertPool.Add", err.Error()
				}
			}
			if v.Err != "" {
				continue
			}
			res, err := passiveauth.PassiveAuth(doc, pool)
			v.Stage = fmt.Sprintf("PassiveAuth#%d", i+1)
			if err != nil {
				v.Err = err.Error()
			}
			v.Success = res != nil && res.Success
		}
	})
	if pv != nil {
		v.Success = false
		v.Panic = fmt.Sprint(pv)
		v.Stack = libFrames(stack)
	}
	return v
}

func histStates(prof uint8) []state {
	g := genuineState(prof, sGenuine)
	seen := map[state]bool{g: true}
	out := []state{g}
	for _, a := range actions {
		n := a.f(g)
		if !seen[n] {
			seen[n] = true
			out = append(out, n)
		}
	}
	return out
}

func histString(seq []state) string {
	var p []string
	for i, s := range seq {
		p = append(p, fmt.Sprintf("#%d: %s", i+1, s))
	}
	return strings.Join(p, "  THEN  ")
}

func histCheck(c *vc.Ctx, sec string, seq []state) {
	last := seq[len(seq)-1]
	bad := truth(last)
	v := histRun(seq)
	fresh := runPA(concretise(last))
	hc := histCase{Kind: "history", States: append([]state{}, seq...)}
	c.AddStates(1)
	c.AddTrans(int64(len(seq)))
	c.AddTraces(1)
	c.Distinct(fmt.Sprintf("hist|%v|%v", last, v.Success))
	switch {
	case v.Panic != "":
		c.Outcome(sec, "panic")
		c.Violation(sec, "history/"+panicKey(v), fmt.Sprintf("PassiveAuth panicked (%s) in a history on one Document: %s", v.Panic, histString(seq)), hc, nil)
	case v.Success && len(bad) > 0:
		c.Outcome(sec, "ACCEPTED-INVALID after an earlier verification")
		c.Violation(sec, "history/accept-invalid/"+strings.Join(bad, "+"),
			fmt.Sprintf("PassiveAuth reports Success on a re-used Document although %s (a fresh Document with the same files: Success=%v); history: %s", strings.Join(bad, ", "), fresh.Success, histString(seq)), hc,
			func() bool { return histRun(seq).Success })
	case v.Success != fresh.Success:
		c.Outcome(sec, "DIFFERS from a fresh Document")
		c.Violation(sec, "history/differs-from-fresh", fmt.Sprintf("verdict on a re-used Document (Success=%v, %s %s) differs from a fresh Document with the same files (Success=%v, %s %s); history: %s",
			v.Success, v.Stage, v.Err, fresh.Success, fresh.Stage, fresh.Err, histString(seq)), hc,
			func() bool { return histRun(seq).Success != runPA(concretise(last)).Success })
	case v.Success:
		c.Outcome(sec, "accepted-valid, as fresh")
	default:
		c.Outcome(sec, "refused, as fresh")
	}
}

func runHistories(c *vc.Ctx) {
	sec := "histories of verifications on one Document"
	nprof, triples := 4, 0
	if c.Thorough() {
		nprof, triples = len(allProfiles), 2
	}
	var n2, n3, nst int
	for p := 0; p < nprof; p++ {
		hs := histStates(uint8(p))
		nst = len(hs)
		for _, a := range hs {
			for _, b := range hs {
				if a == b {
					continue
				}
				n2++
				if !c.Mine() {
					continue
				}
				if c.Expired() {
					c.SecNotExhaustive(sec, fmt.Sprintf("deadline in profile %s (pairs)", allProfiles[p].Name))
					return
				}
				histCheck(c, sec, []state{a, b})
				if n2%997 == 3 {
					c.Sample(map[string]any{"history": histString([]state{a, b}), "ground_truth_violated_conditions_of_last": truth(b)})
				}
			}
		}
		if p < triples {
			for _, a := range hs {
				for _, b := range hs {
					for _, d := range hs {
						if a == b || b == d {
							continue
						}
						n3++
						if !c.Mine() {
							continue
						}
						if c.Expired() {
							c.SecNotExhaustive(sec, fmt.Sprintf("deadline in profile %s (triples)", allProfiles[p].Name))
							return
						}
						histCheck(c, sec, []state{a, b, d})
					}
				}
			}
		}
	}
	c.SecBound(sec, fmt.Sprintf("%d profiles x every ordered pair of distinct states among the genuine state and its %d depth-1 successors (%d histories); every ordered triple on the first %d profiles (%d histories); one Document re-loaded in place; oracle = ground truth of the last state + verdict of a fresh Document",
		nprof, nst-1, n2, triples, n3))
}
