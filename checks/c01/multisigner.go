package c01

import (
	"fmt"
	"math/big"
	"time"

	"verif/internal/refpki"
	"verif/internal/vc"
)

// (e) several SignerInfos in one security object. CMS lets a SignedData carry a SET OF SignerInfo; the statement's
// condition ("that certificate verifies ... inside their validity period at the STATED signing time") applies to
// every signer the library accepts the object on. Signer kinds (each with its own certificate, key and stated time):
//
//	ok-2022         DS certificate valid 2020-2025, signing time 2022
//	ok-2018         another DS certificate valid 2016-2019, signing time 2018
//	ok-no-time      DS certificate valid 2020-2025, no signing-time attribute
//	expired         DS certificate valid 2016-2019, signing time 2022 (outside ITS OWN stated time)
//	not-yet-valid   DS certificate valid 2030-2033, signing time 2022
//	untrusted       DS certificate issued by a CA that is not in the trust store
//	bad-signature   genuine certificate, signature made with another key
//
// Oracle: Success only if EVERY signer of the sequence is valid by itself (the verdict of a SET OF cannot depend
// on the order). All ordered sequences of length 1..3 are enumerated.
type msCase struct {
	Kind    string   `json:"kind"` // "multisigner"
	Signers []string `json:"signers"`
}

var msKinds = []string{"ok-2022", "ok-2018", "ok-no-time", "expired", "not-yet-valid", "untrusted", "bad-signature"}

func msValid(k string) bool { return k == "ok-2022" || k == "ok-2018" || k == "ok-no-time" }

func msBuild(m msCase) (files, error) {
	prof := refpki.Profile{Country: "NL", State: "NLD", CSCA: refpki.EC("P-256", false, 0), DS: refpki.EC("P-256", false, 1), Hash: refpki.SHA256}
	is := refpki.NewIssuer(prof)
	evil := refpki.NewIssuer(refpki.Profile{Country: "NL", State: "NLD", CSCA: refpki.EC("P-256", false, 40), DS: refpki.EC("P-256", false, 41), Hash: refpki.SHA256})
	dgs := map[int][]byte{1: refpki.BuildDG1TD3("NLD", "XR1234567", "800101", "300101"), 11: refpki.BuildDG11("SPECIMEN<<ANNA<MARIA")}
	eContent := refpki.LDSSecurityObject(0, refpki.SHA256, refpki.HashDGs(refpki.SHA256, dgs))
	d := func(y int) time.Time { return time.Date(y, 6, 15, 12, 0, 0, 0, time.UTC) }
	mkCert := func(i *refpki.Issuer, serial int64, k *refpki.Key, nb, na int) *refpki.Cert {
		return i.IssueDS(refpki.CertSpec{Serial: big.NewInt(serial), Subject: refpki.NewName("NL", "Reference State", "Document Signer", fmt.Sprintf("DS %d", serial)), Key: k,
			NotBefore: time.Date(nb, 1, 1, 0, 0, 0, 0, time.UTC), NotAfter: time.Date(na, 1, 1, 0, 0, 0, 0, time.UTC)})
	}
	var sds []*refpki.SignedData
	for idx, kind := range m.Signers {
		key := refpki.LoadKey(refpki.EC("P-256", false, 50+idx))
		signKey := key
		var cert *refpki.Cert
		var st *time.Time
		t22, t18 := d(2022), d(2018)
		serial := int64(0x3000 + idx*16)
		switch kind {
		case "ok-2022":
			cert, st = mkCert(is, serial+1, key, 2020, 2025), &t22
		case "ok-2018":
			cert, st = mkCert(is, serial+2, key, 2016, 2019), &t18
		case "ok-no-time":
			cert = mkCert(is, serial+3, key, 2020, 2025)
		case "expired":
			cert, st = mkCert(is, serial+4, key, 2016, 2019), &t22
		case "not-yet-valid":
			cert, st = mkCert(is, serial+5, key, 2030, 2033), &t22
		case "untrusted":
			cert, st = mkCert(evil, serial+6, key, 2020, 2025), &t22
		case "bad-signature":
			cert, st = mkCert(is, serial+7, key, 2020, 2025), &t22
			signKey = refpki.LoadKey(refpki.EC("P-256", false, 70+idx))
		default:
			return files{}, fmt.Errorf("unknown signer kind %q", kind)
		}
		sd := &refpki.SignedData{EContentType: refpki.OIDLDSSecurityObject, EContent: eContent, DigestAlg: refpki.SHA256, Certs: []*refpki.Cert{cert}, SigningTime: st}
		sd.Sign(signKey, refpki.SignOpts{Hash: refpki.SHA256})
		sds = append(sds, sd)
	}
	return files{dgs: dgs, sod: refpki.EncodeMultiSigner(sds, 0x77), store: [][]byte{is.CSCACert.DER}}, nil
}

func msRun(m msCase) (accepted bool, v verdict, herr error) {
	f, err := msBuild(m)
	if err != nil {
		return false, verdict{}, err
	}
	v = runPA(f)
	return v.Success, v, nil
}

func runMultiSigner(c *vc.Ctx) {
	sec := "security objects with several SignerInfos"
	var seqs [][]string
	var gen func(cur []string)
	gen = func(cur []string) {
		if len(cur) > 0 {
			seqs = append(seqs, append([]string{}, cur...))
		}
		if len(cur) == 3 {
			return
		}
		for _, k := range msKinds {
			gen(append(cur, k))
		}
	}
	gen(nil)
	c.SecBound(sec, fmt.Sprintf("all %d ordered sequences of 1..3 signers over %d signer kinds (valid at its own stated time in 2022 / in 2018 / without stated time; expired or not yet valid at its own stated time; untrusted issuer; wrong key), one LDS security object", len(seqs), len(msKinds)))
	for _, s := range seqs {
		if !c.Mine() {
			continue
		}
		m := msCase{Kind: "multisigner", Signers: s}
		acc, v, err := msRun(m)
		if err != nil {
			c.HarnessError("multisigner %v: %v", s, err)
			continue
		}
		c.AddStates(1)
		c.AddTraces(1)
		allValid := true
		firstBad := ""
		for _, k := range s {
			if !msValid(k) {
				allValid = false
				if firstBad == "" {
					firstBad = k
				}
			}
		}
		c.Distinct(fmt.Sprintf("ms/%v/%v", s, acc))
		switch {
		case v.Panic != "":
			c.Outcome(sec, "panic")
			c.Violation(sec, "panic/multisigner", fmt.Sprintf("PassiveAuth panicked on signers %v: %s %s", s, v.Panic, v.Stack), m, nil)
		case acc && !allValid:
			c.Outcome(sec, "ACCEPTED-with-invalid-signer")
			c.Violation(sec, "accept-invalid/signer-set-contains/"+firstBad, fmt.Sprintf("PassiveAuth reports Success for a security object whose SignerInfos are %v: signer %q is not valid at its own stated signing time / not trusted", s, firstBad), m,
				func() bool { a, _, _ := msRun(m); return a })
		case acc:
			c.Outcome(sec, "accepted (all signers valid)")
		case allValid:
			// rejecting a valid multi-signer object is not a soundness matter (C09 covers single-signer completeness)
			c.Outcome(sec, "refused although all signers valid (informational)")
		default:
			c.Outcome(sec, "refused")
		}
	}
}
