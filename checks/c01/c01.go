// Package c01 checks property C01: passive authentication accepts only CSCA-rooted, hash-consistent documents.
//
// (a) explicit-state BFS over a symbolic attacker state; every reached state is concretised to real files with
// the independent issuer refpki and run through the real library; ground truth is a function of the tuple.
// (b) region-aware byte sweep over the authenticated regions (byte-range maps of refpki).
// (c) ECDSA signature values replaced by range-class representatives (0, n, order of the sibling curve, ...).
// (d) full product of a small master-list attacker tuple through cms.CreateCertPoolFromSignedData.
package c01

import (
	"bytes"
	"encoding/json"
	"fmt"
	"math/big"
	"sort"
	"strings"
	"sync"
	"time"

	"github.com/gmrtd/gmrtd/cms"
	"github.com/gmrtd/gmrtd/document"
	"github.com/gmrtd/gmrtd/passiveauth"

	"verif/internal/refpki"
	"verif/internal/vc"
)

func init() {
	vc.Register(&vc.Check{ID: "C01", Level: "model_checking", Run: run, Replay: replay, QuickSec: 110, ThoroSec: 1150,
		Rule:   "states = distinct symbolic attacker tuples (profile; per-DG provenance; hash list; messageDigest; signing time; signature; DS certificate; trust store; CardSecurity) reached by BFS from the genuine document (roots: trust store = genuine CSCA alone / with unrelated countries) through attacker actions (transitions), depth 3 quick / 4 thorough; every state is concretised to files and run through passiveauth.PassiveAuth (traces). Oracle: Success=true => tuple valid (ground truth computed from the tuple only). Plus: every byte of every authenticated region x 8 bit flips (quick) / 255 substitutions (thorough); ECDSA (r,s) range classes on 11 curves; master-list tuple product; security objects with 1..3 SignerInfos over 7 signer kinds in every order (each signer judged at its own stated time). distinct_nontrivial = distinct concretised inputs (state tuples, mutated byte positions, range-class cases)",
		Assume: []string{"the attacker holds neither the genuine CSCA key nor a genuine DS key; SHA-1..512, RSA and ECDSA are unforgeable (only logical bypasses are searched)", "refpki (independent of gmrtd) builds the files; self-tested against crypto/x509, crypto/rsa, crypto/ecdsa"}})
}

// ------------------------------------------------------------------------------------------------
// profiles and the PKI world of one profile

type profile struct {
	Name string
	CSCA refpki.KeySpec // Index is replaced by the role
	DS   refpki.KeySpec
	Hash refpki.Hash
}

func ecProf(curve string, explicit bool, h refpki.Hash) profile {
	n := "ec-" + curve
	if explicit {
		n += "-explicit"
	}
	return profile{Name: n + "/" + string(h), CSCA: refpki.EC(curve, false, 0), DS: refpki.EC(curve, explicit, 0), Hash: h}
}

var allProfiles = []profile{
	{Name: "rsa2048-pkcs1/sha256", CSCA: refpki.RSA(2048, false, 0), DS: refpki.RSA(2048, false, 0), Hash: refpki.SHA256},
	{Name: "rsa2048-pss/sha256", CSCA: refpki.RSA(2048, true, 0), DS: refpki.RSA(2048, true, 0), Hash: refpki.SHA256},
	ecProf("P-256", false, refpki.SHA256),
	ecProf("brainpoolP256r1", true, refpki.SHA256),
	// thorough only from here
	{Name: "rsa1024-pkcs1/sha1", CSCA: refpki.RSA(1024, false, 0), DS: refpki.RSA(1024, false, 0), Hash: refpki.SHA1},
	{Name: "rsa1024-pss/sha256", CSCA: refpki.RSA(1024, true, 0), DS: refpki.RSA(1024, true, 0), Hash: refpki.SHA256},
	ecProf("P-192", false, refpki.SHA1),
	ecProf("P-224", false, refpki.SHA224),
	ecProf("P-384", true, refpki.SHA384),
	ecProf("P-521", false, refpki.SHA512),
	ecProf("brainpoolP192r1", false, refpki.SHA1),
	ecProf("brainpoolP224r1", false, refpki.SHA224),
	ecProf("brainpoolP320r1", false, refpki.SHA384),
	ecProf("brainpoolP384r1", false, refpki.SHA384),
	ecProf("brainpoolP512r1", false, refpki.SHA512),
}

func profByName(n string) (profile, bool) {
	for _, p := range allProfiles {
		if p.Name == n {
			return p, true
		}
	}
	return profile{}, false
}

// key roles (KeySpec.Index)
const (
	roleG  = 0 // genuine CSCA
	roleD  = 1 // genuine DS
	roleF  = 2 // another CA key that carries the genuine CSCA's SKI and DN
	roleD2 = 3 // another genuine DS of the same CSCA (attacker does not hold it)
	roleA  = 4 // attacker's CSCA (a legitimate CSCA of ANOTHER country, FR)
	roleDA = 5 // attacker's DS
)

// signing times
var (
	t0 = refpki.SigningTime                          // 2022-06-15, the genuine signing time
	t2 = time.Date(2018, 3, 1, 0, 0, 0, 0, time.UTC) // "moved" signing time (inside the expired DS certificate's window)
)

func tOf(t uint8) time.Time {
	if t == 1 {
		return t2
	}
	return t0
}

// DS certificate variants
const (
	cGenuine = iota
	cOtherDS
	cAtkAkiA_NL // attacker DS key, signed by attacker CSCA key, issuer DN = genuine CSCA DN, AKI = attacker CSCA SKI
	cAtkAkiG_NL // same but AKI = genuine CSCA SKI
	cAtkFR      // attacker DS honestly issued under the attacker's FR CSCA
	cSelfSigned
	cGenExpired  // genuine DS key, genuine CSCA signature, validity 2016-2019
	cGenFuture   // ... validity 2026-2029
	cGenNoDigSig // ... keyUsage without digitalSignature
	nCerts
)

var certNames = [nCerts]string{"genuine", "other-genuine-DS", "attackerDS(issuerDN=genuine,AKI=attackerSKI)", "attackerDS(issuerDN=genuine,AKI=genuineSKI)", "attackerDS-under-FR-CSCA", "self-signed", "genuine-expired", "genuine-not-yet-valid", "genuine-without-digitalSignature"}

type dsMeta struct {
	key       int // roleD, roleD2, roleDA
	issuerKey int // roleG, roleA, roleDA (self)
	country   string
	nb, na    time.Time
	digSig    bool
}

// trust store variants
const (
	sGenuine = iota
	sGenuinePlusOthers
	sOtherCountryOnly
	sSameSKIOtherKey
	sNoCAFlag
	sNoKeyCertSign
	sExpired
	sSameSKIOtherKeyThenGenuine
	nStores
)

var storeNames = [nStores]string{"genuine-CSCA", "genuine+FR+SE", "FR-only", "other-key-with-genuine-SKI-and-DN", "genuine-key-without-CA-flag", "genuine-key-without-keyCertSign", "genuine-key-expired-2021", "other-key-same-SKI,then-genuine"}

type caMeta struct {
	key     int
	country string
	isCA    bool
	kcs     bool
	nb, na  time.Time
}

type world struct {
	p         profile
	keys      map[int]*refpki.Key
	certs     [nCerts]*refpki.Cert
	certMeta  [nCerts]dsMeta
	stores    [nStores][]*refpki.Cert
	storeMeta [nStores][]caMeta
	dg        [3][4][]byte // slot (DG1, DG15, DG13) x content code
	dg14      []byte
	secInfos  []byte
	mu        sync.Mutex
	csCache   map[uint8][]byte
	aNL       *refpki.Cert // attacker's self-signed CA certificate carrying the genuine CSCA's DN
}

var (
	worldMu sync.Mutex
	worlds  = map[string]*world{}
)

func date(y int) time.Time { return time.Date(y, 1, 1, 0, 0, 0, 0, time.UTC) }

func getWorld(p profile) *world {
	worldMu.Lock()
	defer worldMu.Unlock()
	if w := worlds[p.Name]; w != nil {
		return w
	}
	w := &world{p: p, keys: map[int]*refpki.Key{}, csCache: map[uint8][]byte{}}
	for _, r := range []int{roleG, roleF, roleA} {
		s := p.CSCA
		s.Index = r
		w.keys[r] = refpki.LoadKey(s)
	}
	for _, r := range []int{roleD, roleD2, roleDA} {
		s := p.DS
		s.Index = r
		w.keys[r] = refpki.LoadKey(s)
	}
	kU := refpki.LoadKey(refpki.EC("P-256", false, 40))
	nameNL := refpki.NewName("NL", "Reference State", "Passport Authority", "CSCA NL")
	nameFR := refpki.NewName("FR", "Etat de reference", "ANTS", "CSCA FR")
	nameSE := refpki.NewName("SE", "Referensstat", "Polisen", "CSCA SE")
	so := refpki.SignOpts{Hash: p.Hash}
	ca := func(name refpki.Name, k *refpki.Key, ski []byte, bc, ku int, nb, na time.Time) *refpki.Cert {
		id := ski
		if id == nil {
			id = k.KeyID()
		}
		o := so
		if k.Spec.Alg != w.keys[roleG].Spec.Alg {
			o = refpki.SignOpts{Hash: refpki.SHA256}
		}
		return refpki.IssueCert(refpki.CertSpec{Serial: big.NewInt(1), Issuer: name, Subject: name, NotBefore: nb, NotAfter: na, Key: k,
			SKI: ski, AKI: id, BasicConstraints: bc, KeyUsage: ku}, k, o)
	}
	kcs := refpki.KUKeyCertSign | refpki.KUCRLSign
	G := w.keys[roleG]
	gOK := ca(nameNL, G, nil, refpki.BCCA, kcs, date(2015), date(2035))
	skiG := gOK.SKI
	fSame := ca(nameNL, w.keys[roleF], skiG, refpki.BCCA, kcs, date(2015), date(2035))
	aFR := ca(nameFR, w.keys[roleA], nil, refpki.BCCA, kcs, date(2015), date(2035))
	w.aNL = ca(nameNL, w.keys[roleA], nil, refpki.BCCA, kcs, date(2015), date(2035)) // attacker's self-signed CA under the genuine CSCA's DN
	uSE := ca(nameSE, kU, nil, refpki.BCCA, kcs, date(2015), date(2035))
	gNoCA := ca(nameNL, G, nil, refpki.BCNotCA, kcs, date(2015), date(2035))
	gNoKCS := ca(nameNL, G, nil, refpki.BCCA, refpki.KUCRLSign, date(2015), date(2035))
	gExp := ca(nameNL, G, nil, refpki.BCCA, kcs, date(2010), date(2021))
	mG := caMeta{roleG, "NL", true, true, date(2015), date(2035)}
	mF := caMeta{roleF, "NL", true, true, date(2015), date(2035)}
	mA := caMeta{roleA, "FR", true, true, date(2015), date(2035)}
	mU := caMeta{-1, "SE", true, true, date(2015), date(2035)}
	w.stores[sGenuine], w.storeMeta[sGenuine] = []*refpki.Cert{gOK}, []caMeta{mG}
	w.stores[sGenuinePlusOthers], w.storeMeta[sGenuinePlusOthers] = []*refpki.Cert{uSE, gOK, aFR}, []caMeta{mU, mG, mA}
	w.stores[sOtherCountryOnly], w.storeMeta[sOtherCountryOnly] = []*refpki.Cert{aFR}, []caMeta{mA}
	w.stores[sSameSKIOtherKey], w.storeMeta[sSameSKIOtherKey] = []*refpki.Cert{fSame}, []caMeta{mF}
	w.stores[sNoCAFlag], w.storeMeta[sNoCAFlag] = []*refpki.Cert{gNoCA}, []caMeta{{roleG, "NL", false, true, date(2015), date(2035)}}
	w.stores[sNoKeyCertSign], w.storeMeta[sNoKeyCertSign] = []*refpki.Cert{gNoKCS}, []caMeta{{roleG, "NL", true, false, date(2015), date(2035)}}
	w.stores[sExpired], w.storeMeta[sExpired] = []*refpki.Cert{gExp}, []caMeta{{roleG, "NL", true, true, date(2010), date(2021)}}
	w.stores[sSameSKIOtherKeyThenGenuine], w.storeMeta[sSameSKIOtherKeyThenGenuine] = []*refpki.Cert{fSame, gOK}, []caMeta{mF, mG}

	dsName := refpki.NewName("NL", "Reference State", "Document Signer", "DS 01")
	ds := func(serial int64, issuer, subject refpki.Name, key, signer *refpki.Key, aki []byte, nb, na time.Time, ku int) *refpki.Cert {
		o := so
		return refpki.IssueCert(refpki.CertSpec{Serial: big.NewInt(serial), Issuer: issuer, Subject: subject, NotBefore: nb, NotAfter: na,
			Key: key, AKI: aki, KeyUsage: ku}, signer, o)
	}
	A, D, D2, DA := w.keys[roleA], w.keys[roleD], w.keys[roleD2], w.keys[roleDA]
	dig := refpki.KUDigitalSignature
	w.certs[cGenuine] = ds(0x1001, nameNL, dsName, D, G, skiG, date(2020), date(2025), dig)
	w.certMeta[cGenuine] = dsMeta{roleD, roleG, "NL", date(2020), date(2025), true}
	w.certs[cOtherDS] = ds(0x1002, nameNL, refpki.NewName("NL", "Reference State", "Document Signer", "DS 02"), D2, G, skiG, date(2020), date(2025), dig)
	w.certMeta[cOtherDS] = dsMeta{roleD2, roleG, "NL", date(2020), date(2025), true}
	w.certs[cAtkAkiA_NL] = ds(0x1001, nameNL, dsName, DA, A, aFR.SKI, date(2020), date(2025), dig)
	w.certMeta[cAtkAkiA_NL] = dsMeta{roleDA, roleA, "NL", date(2020), date(2025), true}
	w.certs[cAtkAkiG_NL] = ds(0x1001, nameNL, dsName, DA, A, skiG, date(2020), date(2025), dig)
	w.certMeta[cAtkAkiG_NL] = dsMeta{roleDA, roleA, "NL", date(2020), date(2025), true}
	w.certs[cAtkFR] = ds(0x5001, nameFR, refpki.NewName("FR", "Etat de reference", "ANTS", "DS FR 01"), DA, A, aFR.SKI, date(2020), date(2025), dig)
	w.certMeta[cAtkFR] = dsMeta{roleDA, roleA, "FR", date(2020), date(2025), true}
	w.certs[cSelfSigned] = ds(0x1001, dsName, dsName, DA, DA, DA.KeyID(), date(2020), date(2025), dig)
	w.certMeta[cSelfSigned] = dsMeta{roleDA, roleDA, "NL", date(2020), date(2025), true}
	w.certs[cGenExpired] = ds(0x0901, nameNL, dsName, D, G, skiG, date(2016), date(2019), dig)
	w.certMeta[cGenExpired] = dsMeta{roleD, roleG, "NL", date(2016), date(2019), true}
	w.certs[cGenFuture] = ds(0x1101, nameNL, dsName, D, G, skiG, date(2026), date(2029), dig)
	w.certMeta[cGenFuture] = dsMeta{roleD, roleG, "NL", date(2026), date(2029), true}
	w.certs[cGenNoDigSig] = ds(0x1003, nameNL, dsName, D, G, skiG, date(2020), date(2025), refpki.KUKeyEncipherment)
	w.certMeta[cGenNoDigSig] = dsMeta{roleD, roleG, "NL", date(2020), date(2025), false}

	w.dg[0][1] = refpki.BuildDG1TD3("NLD", "XR1234567", "800101", "300101")
	w.dg[0][2] = refpki.BuildDG1TD3("NLD", "XR7654321", "800101", "300101")
	w.dg[0][3] = refpki.BuildDG1TD3("FRA", "XR1234567", "800101", "300101")
	w.dg[1][1] = refpki.BuildDG15(refpki.LoadKey(refpki.EC("P-256", false, 21)))
	w.dg[1][2] = refpki.BuildDG15(refpki.LoadKey(refpki.EC("P-256", false, 22)))
	w.dg[2][1] = refpki.BuildDG13([]byte("injected optional details"))
	caKey := refpki.LoadKey(refpki.EC("brainpoolP256r1", false, 20))
	w.dg14 = refpki.BuildDG14(caKey, true)
	w.secInfos = refpki.SecurityInfos(caKey, false)
	worlds[p.Name] = w
	return w
}

// ------------------------------------------------------------------------------------------------
// symbolic state

var slotDG = [3]int{1, 15, 13}

type state struct {
	Prof   uint8    // index into allProfiles
	DG     [3]uint8 // per slot: 0 absent/stripped, else content code (slot DG1: 1 orig, 2 altered, 3 altered to FRA; DG15: 1 orig, 2 altered; DG13: 1 injected)
	L      [3]uint8 // hash list entry per slot: 0 none, 1..3 hash of that content code, 9 corrupted value
	M      [3]uint8 // the hash list the messageDigest attribute was computed over
	T      uint8    // signingTime attribute: 0 = T0, 1 = T2 (moved)
	SigKey uint8    // 0: genuine signature (DS key D over the genuine attributes), 1: attacker DS key DA
	SigM   [3]uint8 // attributes the attacker signature covers
	SigT   uint8
	Cert   uint8
	Store  uint8
	Extra  uint8 // 0: only the signer certificate is embedded; 1: the attacker's self-signed CA certificate (genuine CSCA DN, attacker key) is embedded as well - embedded certificates are never trust anchors, so the ground truth does not depend on it
	CS     uint8 // CardSecurity: 0 absent, 1 genuine, 2 genuine with tampered eContent, 3 made and signed by the attacker (certificate cAtkAkiG_NL), 4 genuine key but stated signing time after the DS certificate expired
}

var origL = [3]uint8{1, 1, 0}

func genuineState(prof, store uint8) state {
	return state{Prof: prof, DG: [3]uint8{1, 1, 0}, L: origL, M: origL, Store: store}
}

func (s state) String() string {
	sig := "genuine"
	if s.SigKey == 1 {
		sig = fmt.Sprintf("attackerDS-over(md=H(list%v),time=T%d)", s.SigM, s.SigT*2)
	}
	return fmt.Sprintf("profile=%s DG1/15/13=%v list=%v md=H(list%v) signingTime=T%d sig=%s cert=%s embeddedAttackerCA=%d store=%s cardsec=%d",
		allProfiles[s.Prof].Name, s.DG, s.L, s.M, s.T*2, sig, certNames[s.Cert], s.Extra, storeNames[s.Store], s.CS)
}

type action struct {
	name string
	f    func(state) state
}

var actions []action

func init() {
	for slot, max := range []uint8{3, 2, 1} {
		for v := uint8(0); v <= max; v++ {
			slot, v := slot, v
			actions = append(actions, action{fmt.Sprintf("set-DG%d:=%d", slotDG[slot], v), func(s state) state { s.DG[slot] = v; return s }})
		}
	}
	actions = append(actions,
		action{"recompute-hash-list", func(s state) state { s.L = s.DG; return s }},
		action{"corrupt-hash-list-entry", func(s state) state { s.L[0] = 9; return s }},
		action{"restore-hash-list", func(s state) state { s.L = origL; return s }},
		action{"recompute-messageDigest", func(s state) state { s.M = s.L; return s }},
		action{"move-signingTime", func(s state) state { s.T ^= 1; return s }},
		action{"re-sign-with-attacker-DS-key", func(s state) state { s.SigKey, s.SigM, s.SigT = 1, s.M, s.T; return s }},
		action{"restore-genuine-signature", func(s state) state { s.SigKey, s.SigM, s.SigT = 0, [3]uint8{}, 0; return s }},
	)
	for v := uint8(0); v < nCerts; v++ {
		v := v
		actions = append(actions, action{"swap-cert:=" + certNames[v], func(s state) state { s.Cert = v; return s }})
	}
	for v := uint8(0); v < nStores; v++ {
		v := v
		actions = append(actions, action{"env-store:=" + storeNames[v], func(s state) state { s.Store = v; return s }})
	}
	for v := uint8(0); v < 5; v++ {
		v := v
		actions = append(actions, action{fmt.Sprintf("set-cardsec:=%d", v), func(s state) state { s.CS = v; return s }})
	}
	actions = append(actions, action{"toggle-embedded-attacker-ca", func(s state) state { s.Extra ^= 1; return s }})
}

// bfs returns the states in discovery order and the number of transitions applied.
func bfs(prof uint8, depth int) ([]state, int64) {
	seen := map[state]bool{}
	var order []state
	var frontier []state
	for _, st := range []uint8{sGenuine, sGenuinePlusOthers} {
		for _, cs := range []uint8{0, 1} {
			g := genuineState(prof, st)
			g.CS = cs
			seen[g] = true
			order = append(order, g)
			frontier = append(frontier, g)
		}
	}
	var trans int64
	for d := 0; d < depth; d++ {
		var next []state
		for _, s := range frontier {
			for _, a := range actions {
				n := a.f(s)
				if n == s {
					continue
				}
				trans++
				if !seen[n] {
					seen[n] = true
					order = append(order, n)
					next = append(next, n)
				}
			}
		}
		frontier = next
	}
	return order, trans
}

// ------------------------------------------------------------------------------------------------
// ground truth: a function of the tuple only

func inWin(t, nb, na time.Time) bool { return !t.Before(nb) && !t.After(na) }

func dg1Country(code uint8) string {
	if code == 3 {
		return "FR"
	}
	return "NL"
}

func chainReason(w *world, cm dsMeta, store uint8, t time.Time) string {
	sawKey := false
	why := ""
	for _, e := range w.storeMeta[store] {
		if e.key != cm.issuerKey {
			continue
		}
		sawKey = true
		switch {
		case e.country != cm.country:
			why = "issuing-CA-of-another-country"
		case !e.isCA:
			why = "CA-flag-missing"
		case !e.kcs:
			why = "keyCertSign-missing"
		case !inWin(t, e.nb, e.na):
			why = "CA-outside-validity"
		default:
			return ""
		}
	}
	if !sawKey {
		for _, e := range w.storeMeta[store] {
			if e.key == roleF && cm.issuerKey != roleF {
				return "issuer-key-not-in-store(same-SKI-other-key-present)"
			}
		}
		return "issuer-key-not-in-store"
	}
	return why
}

// truth returns the list of violated validity conditions (empty = the document is valid for the store).
func truth(s state) []string {
	w := getWorld(allProfiles[s.Prof])
	var bad []string
	for slot := 0; slot < 3; slot++ {
		if s.DG[slot] == 0 {
			continue
		}
		switch {
		case s.L[slot] == 0:
			bad = append(bad, fmt.Sprintf("DG%d-not-in-hash-list", slotDG[slot]))
		case s.L[slot] != s.DG[slot]:
			bad = append(bad, fmt.Sprintf("DG%d-hash-mismatch", slotDG[slot]))
		}
	}
	if s.M != s.L {
		bad = append(bad, "messageDigest!=H(hash-list)")
	}
	cm := w.certMeta[s.Cert]
	switch s.SigKey {
	case 0:
		if cm.key != roleD {
			bad = append(bad, "signature-key!=certificate-key")
		} else if s.M != origL || s.T != 0 {
			bad = append(bad, "signed-attributes-changed-after-signing")
		}
	case 1:
		if cm.key != roleDA {
			bad = append(bad, "signature-key!=certificate-key")
		} else if s.SigM != s.M || s.SigT != s.T {
			bad = append(bad, "signed-attributes-changed-after-signing")
		}
	}
	t := tOf(s.T)
	if !cm.digSig {
		bad = append(bad, "DS-without-digitalSignature")
	}
	if !inWin(t, cm.nb, cm.na) {
		bad = append(bad, "DS-outside-validity")
	}
	if r := chainReason(w, cm, s.Store, t); r != "" {
		bad = append(bad, "chain:"+r)
	}
	if s.DG[0] != 0 && dg1Country(s.DG[0]) != cm.country {
		bad = append(bad, "DG1-issuing-state!=certificate-country")
	}
	switch s.CS {
	case 1:
		g := w.certMeta[cGenuine]
		if r := chainReason(w, g, s.Store, t0); r != "" {
			bad = append(bad, "cardsec-chain:"+r)
		} else if g.country != cm.country {
			bad = append(bad, "cardsec-country!=document-country")
		}
	case 2:
		bad = append(bad, "cardsec-content-tampered")
	case 3:
		bad = append(bad, "cardsec-signed-by-attacker")
	case 4:
		bad = append(bad, "cardsec-signed-outside-its-certificate-validity")
	}
	return bad
}

// ------------------------------------------------------------------------------------------------
// concretisation

type files struct {
	dgs     map[int][]byte
	sod     []byte
	cardSec []byte
	store   [][]byte
}

func (w *world) hashOf(slot int, code uint8) []byte {
	if code == 9 {
		h := w.p.Hash.Sum(w.dg[slot][1])
		h[0] ^= 0xFF
		return h
	}
	return w.p.Hash.Sum(w.dg[slot][code])
}

func (w *world) lds(l [3]uint8) []byte {
	m := map[int][]byte{14: w.p.Hash.Sum(w.dg14)}
	for slot := 0; slot < 3; slot++ {
		if l[slot] != 0 {
			m[slotDG[slot]] = w.hashOf(slot, l[slot])
		}
	}
	return refpki.LDSSecurityObject(0, w.p.Hash, m)
}

func (w *world) sodData(s state) *refpki.SignedData {
	t := tOf(s.T)
	sd := &refpki.SignedData{EContentType: refpki.OIDLDSSecurityObject, EContent: w.lds(s.L), DigestAlg: w.p.Hash,
		Certs: []*refpki.Cert{w.certs[s.Cert]}, MessageDigest: w.p.Hash.Sum(w.lds(s.M)), SigningTime: &t}
	if s.Extra == 1 {
		sd.Certs = append(sd.Certs, w.aNL)
	}
	// the signature is computed over the attributes it was made for, then placed next to the current attributes
	signed := *sd
	if s.SigKey == 0 {
		tt := t0
		signed.MessageDigest, signed.SigningTime = w.p.Hash.Sum(w.lds(origL)), &tt
		signed.Sign(w.keys[roleD], refpki.SignOpts{})
	} else {
		tt := tOf(s.SigT)
		signed.MessageDigest, signed.SigningTime = w.p.Hash.Sum(w.lds(s.SigM)), &tt
		signed.Sign(w.keys[roleDA], refpki.SignOpts{})
	}
	sd.SigAlg, sd.Signature = signed.SigAlg, signed.Signature
	return sd
}

func (w *world) cardSecData(cs uint8) *refpki.SignedData {
	tt := t0
	sd := &refpki.SignedData{EContentType: refpki.OIDCardSecurityObj, EContent: w.secInfos, DigestAlg: w.p.Hash,
		Certs: []*refpki.Cert{w.certs[cGenuine]}, SigningTime: &tt}
	switch cs {
	case 1:
		sd.Sign(w.keys[roleD], refpki.SignOpts{})
	case 2:
		sd.Sign(w.keys[roleD], refpki.SignOpts{})
		sd.MessageDigest = w.p.Hash.Sum(w.secInfos) // keep the genuine digest
		e := append([]byte{}, w.secInfos...)
		e[len(e)-1] ^= 0x01 // last octet of the last SecurityInfo (an INTEGER / OID content octet)
		sd.EContent = e
	case 4:
		// genuine key and certificate, but the object states a signing time after the DS certificate expired: invalid
		// on its own, whatever the signing time of the EF.SOD next to it is
		late := time.Date(2026, 3, 1, 0, 0, 0, 0, time.UTC)
		sd.SigningTime = &late
		sd.Sign(w.keys[roleD], refpki.SignOpts{})
	case 3:
		sd.Certs = []*refpki.Cert{w.certs[cAtkAkiG_NL]}
		sd.EContent = refpki.SecurityInfos(refpki.LoadKey(refpki.EC("brainpoolP256r1", false, 23)), false)
		sd.Sign(w.keys[roleDA], refpki.SignOpts{})
	}
	return sd
}

func (w *world) cardSec(cs uint8) []byte {
	if cs == 0 {
		return nil
	}
	w.mu.Lock()
	defer w.mu.Unlock()
	if b := w.csCache[cs]; b != nil {
		return b
	}
	b, _ := w.cardSecData(cs).Encode(refpki.EncDER, 0)
	w.csCache[cs] = b
	return b
}

func (w *world) storeDER(st uint8) [][]byte {
	var out [][]byte
	for _, c := range w.stores[st] {
		out = append(out, c.DER)
	}
	return out
}

func concretise(s state) files {
	w := getWorld(allProfiles[s.Prof])
	f := files{dgs: map[int][]byte{14: w.dg14}, store: w.storeDER(s.Store), cardSec: w.cardSec(s.CS)}
	for slot := 0; slot < 3; slot++ {
		if s.DG[slot] != 0 {
			f.dgs[slotDG[slot]] = w.dg[slot][s.DG[slot]]
		}
	}
	f.sod, _ = w.sodData(s).Encode(refpki.EncDER, 0x77)
	return f
}

// ------------------------------------------------------------------------------------------------
// running the library

type verdict struct {
	Success bool
	Stage   string
	Err     string
	Panic   string
	Stack   string
}

func runPA(f files) verdict {
	var v verdict
	pv, stack := vc.Guard(func() {
		doc := &document.Document{}
		var nums []int
		for n := range f.dgs {
			nums = append(nums, n)
		}
		sort.Ints(nums)
		for _, n := range nums {
			if err := doc.NewDG(n, f.dgs[n]); err != nil {
				v.Stage, v.Err = fmt.Sprintf("NewDG%d", n), err.Error()
				return
			}
		}
		var err error
		if doc.Mf.Lds1.Sod, err = document.NewSOD(f.sod); err != nil {
			v.Stage, v.Err = "NewSOD", err.Error()
			return
		}
		if f.cardSec != nil {
			if doc.Mf.CardSecurity, err = document.NewCardSecurity(f.cardSec); err != nil {
				v.Stage, v.Err = "NewCardSecurity", err.Error()
				return
			}
		}
		// the same trust anchors presented through every pool type a caller can supply: one GenericCertPool, and a
		// CombinedCertPool with one sub-pool per certificate (what cms.DefaultMasterList() style stores look like).
		// Soundness is demanded for each presentation: Success under ANY of them counts.
		pool := &cms.GenericCertPool{}
		comb := &cms.CombinedCertPool{}
		for _, d := range f.store {
			if err := pool.Add(d); err != nil {
				v.Stage, v.Err = "CertPool.Add", err.Error()
				return
			}
			sub := &cms.GenericCertPool{}
			sub.Add(d)
			comb.AddCertPool(sub)
		}
		for i, pl := range []cms.CertPool{pool, comb} {
			res, err := passiveauth.PassiveAuth(doc, pl)
			v.Stage = "PassiveAuth"
			if err != nil && i == 0 {
				v.Err = err.Error()
			}
			if res != nil && res.Success {
				v.Success = true
				if i == 1 && v.Err != "" {
					v.Err = "accepted with a CombinedCertPool although a GenericCertPool of the same certificates refuses: " + v.Err
				}
			}
		}
	})
	if pv != nil {
		v.Success = false
		v.Panic = fmt.Sprint(pv)
		v.Stack = libFrames(stack)
	}
	return v
}

func libFrames(stack string) string {
	var out []string
	for _, l := range strings.Split(stack, "\n") {
		if (strings.Contains(l, "gmrtd/") || strings.Contains(l, "crypto/")) && !strings.HasPrefix(l, "\t") {
			l = strings.TrimSpace(l)
			if i := strings.LastIndex(l, "("); i > 0 {
				l = l[:i]
			}
			out = append(out, l)
			if len(out) == 4 {
				break
			}
		}
	}
	return strings.Join(out, " <- ")
}

func panicKey(v verdict) string {
	fr := v.Stack
	if i := strings.Index(fr, " <- "); i > 0 {
		// keep the innermost two frames
		parts := strings.Split(fr, " <- ")
		if len(parts) > 2 {
			parts = parts[:2]
		}
		fr = strings.Join(parts, "<-")
	}
	p := v.Panic
	if len(p) > 60 {
		p = p[:60]
	}
	return "panic/" + p + "/" + fr
}

// ------------------------------------------------------------------------------------------------
// (a) BFS section

type stateCase struct {
	Kind  string `json:"kind"`
	State state  `json:"state"`
}

func checkState(c *vc.Ctx, sec string, s state, conv *[]string, nConv *int) {
	bad := truth(s)
	f := concretise(s)
	v := runPA(f)
	c.AddTraces(1)
	c.Distinct(fmt.Sprintf("state|%v", s))
	switch {
	case v.Panic != "":
		c.Outcome(sec, "panic")
		c.Violation(sec, panicKey(v), fmt.Sprintf("PassiveAuth panicked (%s) on state: %s", v.Panic, s), stateCase{"state", s},
			func() bool { return runPA(concretise(s)).Panic != "" })
	case v.Success && len(bad) > 0:
		c.Outcome(sec, "ACCEPTED-INVALID")
		c.Violation(sec, "accept-invalid/"+strings.Join(bad, "+"), fmt.Sprintf("PassiveAuth reports Success although %s; state: %s", strings.Join(bad, ", "), s), stateCase{"state", s},
			func() bool { return runPA(concretise(s)).Success })
	case v.Success:
		c.Outcome(sec, "accepted-valid")
	case len(bad) == 0:
		c.Outcome(sec, "refused-valid(converse,informational)")
		*nConv++
		if len(*conv) < 5 {
			*conv = append(*conv, fmt.Sprintf("%s => %s: %s", s, v.Stage, v.Err))
		}
	default:
		c.Outcome(sec, "refused-invalid")
	}
}

func run(c *vc.Ctx) {
	if err := refpki.EnsureKeys(); err != nil {
		c.HarnessError("refpki.EnsureKeys: %v", err)
		return
	}
	if err := refpki.SelfTest(); err != nil {
		c.HarnessError("refpki self-test: %v", err)
		return
	}
	nprof, depth := 4, 3
	if c.Thorough() {
		nprof, depth = len(allProfiles), 4
	}
	// sanity of the model itself: the genuine state is valid and accepted for every profile
	for p := 0; p < nprof; p++ {
		g := genuineState(uint8(p), sGenuine)
		if bad := truth(g); len(bad) != 0 {
			c.HarnessError("ground truth calls the genuine state invalid: %v", bad)
			return
		}
		if v := runPA(concretise(g)); !v.Success {
			// the converse direction is C09's business, but a model whose root is refused explores nothing useful
			c.Note(fmt.Sprintf("genuine document of profile %s is refused by the library (%s %s %s): soundness is still checked, but vacuously for this profile", allProfiles[p].Name, v.Stage, v.Err, v.Panic))
		}
	}

	// (a) BFS
	secA := "attacker-bfs"
	var conv []string
	nConv := 0
	var totalStates, totalTrans int64
	cut := false
	for p := 0; p < nprof && !cut; p++ {
		d := depth
		if c.Thorough() && p >= 4 {
			d = 3 // the additional key types are explored to depth 3, the four main profiles to depth 4
		}
		states, trans := bfs(uint8(p), d)
		totalStates += int64(len(states))
		totalTrans += trans
		for i, s := range states {
			if !c.Mine() {
				continue
			}
			if c.Expired() {
				c.SecNotExhaustive(secA, fmt.Sprintf("deadline in profile %s at state %d of %d", allProfiles[p].Name, i, len(states)))
				cut = true
				break
			}
			checkState(c, secA, s, &conv, &nConv)
			if i%4001 == 7 {
				c.Sample(map[string]any{"state": s.String(), "ground_truth_violated_conditions": truth(s)})
			}
		}
	}
	if c.Shard == 0 {
		c.AddStates(totalStates)
		c.AddTrans(totalTrans)
		c.Extra("bfs_actions", len(actions))
	}
	if c.Thorough() {
		c.SecBound(secA, fmt.Sprintf("BFS depth 4 on 4 profiles and depth 3 on %d further key types, %d attacker/environment actions, %d states, all concretised", nprof-4, len(actions), totalStates))
	} else {
		c.SecBound(secA, fmt.Sprintf("BFS depth %d on %d profiles, %d attacker/environment actions, %d states, all concretised", depth, nprof, len(actions), totalStates))
	}
	c.Extra(fmt.Sprintf("converse_mismatches_shard%d", c.Shard), nConv)
	if c.Shard == 0 {
		c.Extra("converse_mismatch_examples_shard0", conv)
	}

	runSweep(c)
	runSigRange(c)
	runMasterList(c)
	runMultiSigner(c)
	runHistories(c)
}

// ------------------------------------------------------------------------------------------------
// (b) region-aware byte sweep

type sweepCase struct {
	Kind    string `json:"kind"`
	Profile string `json:"profile"`
	File    string `json:"file"` // "sod", "cardsec", "dg<n>"
	Region  string `json:"region"`
	Off     int    `json:"off"`
	Val     int    `json:"val"`
}

type sweepDoc struct {
	f     files
	sodRM refpki.RangeMap
	csRM  refpki.RangeMap
}

func sweepDocFor(p profile) sweepDoc {
	w := getWorld(p)
	g := genuineState(profIndex(p), sGenuine)
	g.CS = 1
	f := concretise(g)
	var d sweepDoc
	d.f = f
	d.f.sod, d.sodRM = w.sodData(g).Encode(refpki.EncDER, 0x77)
	d.f.cardSec, d.csRM = w.cardSecData(1).Encode(refpki.EncDER, 0)
	return d
}

func profIndex(p profile) uint8 {
	for i, q := range allProfiles {
		if q.Name == p.Name {
			return uint8(i)
		}
	}
	panic("profile")
}

// role classifies a byte of a DER region as tag / length / value octet of the innermost element containing it.
func role(region []byte, off int) string {
	pos := 0
	var walk func(b []byte, base int) string
	walk = func(b []byte, base int) string {
		for len(b) >= 2 {
			tag := b[0]
			l := int(b[1])
			h := 2
			if l >= 0x80 {
				k := l & 0x7F
				if k == 0 || k > 3 || len(b) < 2+k {
					return "val"
				}
				l = 0
				for i := 0; i < k; i++ {
					l = l<<8 | int(b[2+i])
				}
				h = 2 + k
			}
			if h+l > len(b) {
				return "val"
			}
			if off >= base && off < base+h+l {
				if off == base {
					return "tag"
				}
				if off < base+h {
					return "len"
				}
				if tag&0x20 != 0 {
					return walk(b[h:h+l], base+h)
				}
				return "val"
			}
			b = b[h+l:]
			base += h + l
		}
		return "val"
	}
	return walk(region, pos)
}

func applySweep(d sweepDoc, file string, off int, val byte) files {
	f := files{dgs: map[int][]byte{}, sod: d.f.sod, cardSec: d.f.cardSec, store: d.f.store}
	for n, b := range d.f.dgs {
		f.dgs[n] = b
	}
	mut := func(b []byte) []byte {
		m := append([]byte{}, b...)
		m[off] = val
		return m
	}
	switch {
	case file == "sod":
		f.sod = mut(f.sod)
	case file == "cardsec":
		f.cardSec = mut(f.cardSec)
	default:
		var n int
		fmt.Sscanf(file, "dg%d", &n)
		f.dgs[n] = mut(f.dgs[n])
	}
	return f
}

type region struct {
	file, name string
	r          refpki.Range
	der        bool // region is one DER element (role classification applies)
}

func sweepRegions(d sweepDoc) []region {
	var out []region
	for _, n := range d.sodRM.AuthenticatedNames() {
		out = append(out, region{"sod", n, d.sodRM[n], n != "signature" && n != "cert0.sigValue"})
	}
	for _, n := range d.csRM.AuthenticatedNames() {
		out = append(out, region{"cardsec", n, d.csRM[n], n != "signature" && n != "cert0.sigValue"})
	}
	var nums []int
	for n := range d.f.dgs {
		nums = append(nums, n)
	}
	sort.Ints(nums)
	for _, n := range nums {
		out = append(out, region{fmt.Sprintf("dg%d", n), "file", refpki.Range{Off: 0, Len: len(d.f.dgs[n])}, true})
	}
	return out
}

func fileBytes(d sweepDoc, file string) []byte {
	switch file {
	case "sod":
		return d.f.sod
	case "cardsec":
		return d.f.cardSec
	}
	var n int
	fmt.Sscanf(file, "dg%d", &n)
	return d.f.dgs[n]
}

func sweepOne(c *vc.Ctx, sec string, p profile, d sweepDoc, rg region, off int, val byte) {
	f := applySweep(d, rg.file, off, val)
	v := runPA(f)
	c.AddTraces(1)
	cs := sweepCase{"sweep", p.Name, rg.file, rg.name, off, int(val)}
	rl := "val"
	if rg.der {
		fb := fileBytes(d, rg.file)
		rl = role(fb[rg.r.Off:rg.r.End()], off-rg.r.Off)
	}
	switch {
	case v.Panic != "":
		c.Outcome(sec, "panic")
		c.Violation(sec, panicKey(v), fmt.Sprintf("panic (%s) with %s byte %d of %s/%s set to %02x (profile %s)", v.Panic, rl, off, rg.file, rg.name, val, p.Name), cs,
			func() bool { return runPA(applySweep(d, rg.file, off, val)).Panic != "" })
	case v.Success:
		c.Outcome(sec, "ACCEPTED-MODIFIED")
		orig := fileBytes(d, rg.file)[off]
		key := fmt.Sprintf("sweep-accept/%s/%s/%s-octet", rg.file, rg.name, rl)
		if rl == "len" && val == 0x80 {
			key += "/definite->indefinite-marker"
		}
		c.Violation(sec, key, fmt.Sprintf("PassiveAuth reports Success although %s octet %d of the authenticated region %s of %s was changed %02x->%02x (profile %s)", rl, off, rg.name, rg.file, orig, val, p.Name), cs,
			func() bool { return runPA(applySweep(d, rg.file, off, val)).Success })
	case v.Stage == "PassiveAuth":
		c.Outcome(sec, "refused-by-PassiveAuth")
	default:
		c.Outcome(sec, "refused-at-parse")
	}
}

func runSweep(c *vc.Ctx) {
	sec := "authenticated-byte-sweep"
	var profs []profile
	for _, n := range []string{"rsa2048-pkcs1/sha256", "ec-P-256/sha256", "rsa1024-pss/sha256"} {
		p, _ := profByName(n)
		profs = append(profs, p)
	}
	if c.Thorough() {
		p, _ := profByName("ec-brainpoolP256r1-explicit/sha256")
		profs = append(profs, p)
	}
	total := 0
	done := true
	for _, p := range profs {
		d := sweepDocFor(p)
		if v := runPA(d.f); !v.Success {
			c.Note(fmt.Sprintf("sweep base document of %s is refused (%s %s %s); the sweep of this profile is vacuous", p.Name, v.Stage, v.Err, v.Panic))
		}
		for _, rg := range sweepRegions(d) {
			total += rg.r.Len
			for off := rg.r.Off; off < rg.r.End(); off++ {
				if !c.Mine() {
					continue
				}
				if c.Expired() {
					done = false
					continue
				}
				orig := fileBytes(d, rg.file)[off]
				c.Distinct(fmt.Sprintf("sweep|%s|%s|%d", p.Name, rg.file, off))
				if c.Thorough() {
					for x := 1; x < 256; x++ {
						sweepOne(c, sec, p, d, rg, off, orig^byte(x))
					}
				} else {
					for b := 0; b < 8; b++ {
						sweepOne(c, sec, p, d, rg, off, orig^(1<<uint(b)))
					}
				}
			}
		}
		if c.Shard == 0 {
			c.Sample(map[string]any{"sweep_profile": p.Name, "sod_ranges": d.sodRM, "sod_len": len(d.f.sod)})
		}
	}
	per := "8 single-bit flips"
	if c.Thorough() {
		per = "all 255 substitutions"
	}
	c.SecBound(sec, fmt.Sprintf("%d profiles; every octet of eContent, each signed attribute, SignerInfo.signature value, DS certificate TBS and signature value of EF.SOD and EF.CardSecurity, and of every DG file (%d octets) x %s", len(profs), total, per))
	if !done {
		c.SecNotExhaustive(sec, "deadline")
	}
}

// ------------------------------------------------------------------------------------------------
// (c) ECDSA signature values from range classes

type sigRangeCase struct {
	Kind  string `json:"kind"`
	Curve string `json:"curve"`
	Where string `json:"where"` // "sod-signature" | "ds-cert-signature"
	R     string `json:"r"`     // class name or "orig"
	S     string `json:"s"`
}

var sibling = map[string]string{"P-192": "brainpoolP192r1", "brainpoolP192r1": "P-192", "P-224": "brainpoolP224r1", "brainpoolP224r1": "P-224",
	"P-256": "brainpoolP256r1", "brainpoolP256r1": "P-256", "P-384": "brainpoolP384r1", "brainpoolP384r1": "P-384"}

func rangeClasses(curve string) (names []string, vals map[string]*big.Int) {
	c := refpki.CurveByName(curve)
	vals = map[string]*big.Int{}
	add := func(n string, v *big.Int) { names = append(names, n); vals[n] = v }
	one := big.NewInt(1)
	add("0", big.NewInt(0))
	add("1", big.NewInt(1))
	add("-1", big.NewInt(-1))
	add("n-1", new(big.Int).Sub(c.N, one))
	add("n", new(big.Int).Set(c.N))
	add("n+1", new(big.Int).Add(c.N, one))
	add("p", new(big.Int).Set(c.P))
	add("2^bits-1", new(big.Int).Sub(new(big.Int).Lsh(one, uint(8*c.ByteLen())), one))
	if sb, ok := sibling[curve]; ok {
		n2 := refpki.CurveByName(sb).N
		add("nSibling-1", new(big.Int).Sub(n2, one))
		add("nSibling", new(big.Int).Set(n2))
		lo, hi := c.N, n2
		if lo.Cmp(hi) > 0 {
			lo, hi = hi, lo
		}
		mid := new(big.Int).Add(lo, hi)
		mid.Rsh(mid, 1)
		add("between-n-and-nSibling", mid)
	}
	return
}

func curveHash(curve string) refpki.Hash {
	switch refpki.CurveByName(curve).ByteLen() {
	case 24:
		return refpki.SHA1
	case 28:
		return refpki.SHA224
	case 32:
		return refpki.SHA256
	case 40, 48:
		return refpki.SHA384
	}
	return refpki.SHA512
}

func sigRangeFiles(cs sigRangeCase) (files, error) {
	p := ecProf(cs.Curve, false, curveHash(cs.Curve))
	p.Name = "sigrange-" + cs.Curve
	w := getWorld(p)
	g := state{DG: [3]uint8{1, 1, 0}, L: origL, M: origL}
	f := files{dgs: map[int][]byte{14: w.dg14, 1: w.dg[0][1], 15: w.dg[1][1]}, store: w.storeDER(sGenuine)}
	sd := w.sodData(g)
	names, vals := rangeClasses(cs.Curve)
	_ = names
	pick := func(orig *big.Int, cls string) (*big.Int, error) {
		if cls == "orig" {
			return orig, nil
		}
		v, ok := vals[cls]
		if !ok {
			return nil, fmt.Errorf("unknown class %q", cls)
		}
		return v, nil
	}
	parse := func(sig []byte) (*big.Int, *big.Int) {
		t, err := refpki.ParseTree(sig)
		if err != nil || len(t.Kids) != 2 {
			panic("own ECDSA signature does not parse")
		}
		return new(big.Int).SetBytes(t.Kids[0].Prim), new(big.Int).SetBytes(t.Kids[1].Prim)
	}
	switch cs.Where {
	case "sod-signature":
		r, s := parse(sd.Signature)
		r2, err := pick(r, cs.R)
		if err != nil {
			return f, err
		}
		s2, err := pick(s, cs.S)
		if err != nil {
			return f, err
		}
		sd.Signature = refpki.ECDSASigDER(r2, s2)
	case "ds-cert-signature":
		cert := w.certs[cGenuine]
		r, s := parse(cert.DER[cert.SigValue.Off:cert.SigValue.End()])
		r2, err := pick(r, cs.R)
		if err != nil {
			return f, err
		}
		s2, err := pick(s, cs.S)
		if err != nil {
			return f, err
		}
		sd.Certs = []*refpki.Cert{cert.WithSignature(refpki.ECDSASigDER(r2, s2))}
	default:
		return f, fmt.Errorf("unknown place %q", cs.Where)
	}
	f.sod, _ = sd.Encode(refpki.EncDER, 0x77)
	return f, nil
}

func runSigRange(c *vc.Ctx) {
	sec := "ecdsa-signature-range-classes"
	n := 0
	for _, curve := range refpki.CurveNames {
		names, _ := rangeClasses(curve)
		for _, where := range []string{"sod-signature", "ds-cert-signature"} {
			var cases []sigRangeCase
			for _, cl := range names {
				cases = append(cases, sigRangeCase{"sigrange", curve, where, cl, "orig"}, sigRangeCase{"sigrange", curve, where, "orig", cl}, sigRangeCase{"sigrange", curve, where, cl, cl})
			}
			for _, cs := range cases {
				n++
				if !c.Mine() {
					continue
				}
				f, err := sigRangeFiles(cs)
				if err != nil {
					c.HarnessError("sigrange: %v", err)
					return
				}
				v := runPA(f)
				c.AddTraces(1)
				c.Distinct(fmt.Sprintf("sigrange|%v", cs))
				switch {
				case v.Panic != "":
					c.Outcome(sec, "panic")
					cc := cs
					c.Violation(sec, panicKey(v)+"/key-on-"+curve, fmt.Sprintf("PassiveAuth panicked (%s; %s) with the %s of a %s document replaced by (r=%s, s=%s)", v.Panic, v.Stack, where, curve, cs.R, cs.S), cs,
						func() bool { f, _ := sigRangeFiles(cc); return runPA(f).Panic != "" })
				case v.Success:
					c.Outcome(sec, "ACCEPTED-MODIFIED")
					c.Violation(sec, "sigrange-accept/"+where, fmt.Sprintf("PassiveAuth reports Success with the %s of a %s document replaced by (r=%s, s=%s)", where, curve, cs.R, cs.S), cs, nil)
				default:
					c.Outcome(sec, "refused")
				}
			}
		}
	}
	c.SecBound(sec, fmt.Sprintf("11 curves x {SOD signature, DS certificate signature} x (r, s, both) from the classes {0, 1, -1, n-1, n, n+1, p, 2^bits-1, order of the same-size sibling curve -1/+0, midpoint between the two orders}: %d cases", n))
}

// ------------------------------------------------------------------------------------------------
// (d) master list

type mlCase struct {
	Kind    string `json:"kind"`
	Profile string `json:"profile"`
	Content int    `json:"content"` // 0 genuine list, 1 attacker's list (attacker CSCA added)
	MD      int    `json:"md"`      // 0 digest of the genuine list, 1 recomputed over the current content
	Sig     int    `json:"sig"`     // 0 genuine signature (master list signer key), 1 attacker key over current attributes
	Cert    int    `json:"cert"`    // 0 genuine MLS, 1 attacker MLS issued by attacker CSCA with AKI = genuine SKI, 2 same with AKI = attacker SKI, 3 self-signed
	Root    int    `json:"root"`    // 0 genuine CSCA, 1 other key with the genuine SKI, 2 attacker's CSCA
	Embed   int    `json:"embed"`   // 0 only the signer certificate embedded, 1 the attacker's CSCA certificate embedded as well (embedded certificates are never trust anchors)
	EKU     int    `json:"eku"`     // extendedKeyUsage of the signer certificate: 0 id-icao-mrtd-security-masterListSigner (critical, Doc 9303-12), 1 none (the profile of a document signer), 2 serverAuth only (critical)
}

func mlTruth(m mlCase) []string {
	var bad []string
	if m.Content != m.MD {
		bad = append(bad, "messageDigest!=H(content)")
	}
	certKey := 0 // 0 genuine MLS key, 1 attacker
	if m.Cert != 0 {
		certKey = 1
	}
	if m.Sig != certKey {
		bad = append(bad, "signature-key!=certificate-key")
	} else if m.Sig == 0 && m.MD != 0 {
		bad = append(bad, "signed-attributes-changed-after-signing")
	}
	issuer := map[int]int{0: roleG, 1: roleA, 2: roleA, 3: roleDA}[m.Cert]
	root := map[int]int{0: roleG, 1: roleF, 2: roleA}[m.Root]
	if issuer != root {
		bad = append(bad, "chain:issuer-key-is-not-the-root")
	}
	if m.EKU != 0 {
		bad = append(bad, "signer-is-not-a-master-list-signer")
	}
	return bad
}

func mlBuild(m mlCase) (ml []byte, root []byte, want [][]byte, err error) {
	p, ok := profByName(m.Profile)
	if !ok {
		return nil, nil, nil, fmt.Errorf("unknown profile")
	}
	w := getWorld(p)
	gOK := w.stores[sGenuine][0]
	aFR := w.stores[sOtherCountryOnly][0]
	uSE := w.stores[sGenuinePlusOthers][0]
	lists := [][]*refpki.Cert{{gOK, uSE}, {gOK, uSE, aFR}}
	nameNL := gOK.Spec.Subject
	mlsName := refpki.NewName("NL", "Reference State", "Master List Signer", "MLS 01")
	so := refpki.SignOpts{Hash: p.Hash}
	var extra []refpki.Ext
	switch m.EKU {
	case 0:
		extra = []refpki.Ext{refpki.EKUMasterListSigner()}
	case 2:
		extra = []refpki.Ext{{OID: []int{2, 5, 29, 37}, Critical: true, Value: refpki.DER(refpki.Seq(refpki.OID([]int{1, 3, 6, 1, 5, 5, 7, 3, 1})))}}
	}
	mk := func(key, signer *refpki.Key, aki []byte, issuer refpki.Name) *refpki.Cert {
		return refpki.IssueCert(refpki.CertSpec{Serial: big.NewInt(0x2001), Issuer: issuer, Subject: mlsName, NotBefore: date(2020), NotAfter: date(2025),
			Key: key, AKI: aki, KeyUsage: refpki.KUDigitalSignature, Extra: extra}, signer, so)
	}
	D2, DA, G, A := w.keys[roleD2], w.keys[roleDA], w.keys[roleG], w.keys[roleA]
	certs := []*refpki.Cert{
		mk(D2, G, gOK.SKI, nameNL),
		mk(DA, A, gOK.SKI, nameNL),
		mk(DA, A, aFR.SKI, nameNL),
		mk(DA, DA, DA.KeyID(), mlsName),
	}
	tt := t0
	content := refpki.MasterListContent(lists[m.Content])
	embedded := []*refpki.Cert{certs[m.Cert]}
	if m.Embed == 1 {
		embedded = append(embedded, aFR)
	}
	sd := &refpki.SignedData{EContentType: refpki.OIDCscaMasterList, EContent: content, DigestAlg: p.Hash, Certs: embedded,
		MessageDigest: p.Hash.Sum(refpki.MasterListContent(lists[m.MD])), SigningTime: &tt}
	signed := *sd
	if m.Sig == 0 {
		signed.MessageDigest = p.Hash.Sum(refpki.MasterListContent(lists[0]))
		signed.Sign(D2, refpki.SignOpts{})
	} else {
		signed.Sign(DA, refpki.SignOpts{})
	}
	sd.SigAlg, sd.Signature = signed.SigAlg, signed.Signature
	ml, _ = sd.Encode(refpki.EncDER, 0)
	root = []*refpki.Cert{gOK, w.stores[sSameSKIOtherKey][0], aFR}[m.Root].DER
	for _, c := range lists[m.Content] {
		want = append(want, c.DER)
	}
	return ml, root, want, nil
}

func mlRun(m mlCase) (accepted bool, poolOK bool, errs string, pn string) {
	ml, root, want, err := mlBuild(m)
	if err != nil {
		return false, false, err.Error(), ""
	}
	pv, _ := vc.Guard(func() {
		pool, err := cms.CreateCertPoolFromSignedData(ml, root)
		if err != nil {
			errs = err.Error()
			return
		}
		accepted = true
		var got [][]byte
		for _, c := range pool.All() {
			got = append(got, []byte(c.Raw))
		}
		sortBytes(got)
		sortBytes(want)
		poolOK = len(got) == len(want)
		for i := 0; poolOK && i < len(got); i++ {
			poolOK = bytes.Equal(got[i], want[i])
		}
	})
	if pv != nil {
		pn = fmt.Sprint(pv)
	}
	return
}

func sortBytes(b [][]byte) {
	sort.Slice(b, func(i, j int) bool { return bytes.Compare(b[i], b[j]) < 0 })
}

func runMasterList(c *vc.Ctx) {
	sec := "master-list-tuples"
	n := 0
	nConv := 0
	for _, pn := range []string{"rsa2048-pkcs1/sha256", "ec-P-256/sha256"} {
		for content := 0; content < 2; content++ {
			for md := 0; md < 2; md++ {
				for sig := 0; sig < 2; sig++ {
					for cert := 0; cert < 4; cert++ {
						for root := 0; root < 6; root++ {
							embed := root / 3
							root := root % 3
							for eku := 0; eku < 3; eku++ {
								n++
								if !c.Mine() {
									continue
								}
								m := mlCase{"ml", pn, content, md, sig, cert, root, embed, eku}
								bad := mlTruth(m)
								acc, poolOK, errs, pnc := mlRun(m)
								c.AddTraces(1)
								c.Distinct(fmt.Sprintf("ml|%v", m))
								switch {
								case pnc != "":
									c.Outcome(sec, "panic")
									c.Violation(sec, "panic/master-list/"+pnc, fmt.Sprintf("CreateCertPoolFromSignedData panicked (%s) on %+v", pnc, m), m, nil)
								case acc && len(bad) > 0:
									c.Outcome(sec, "ACCEPTED-INVALID")
									c.Violation(sec, "ml-accept-invalid/"+strings.Join(bad, "+"), fmt.Sprintf("CreateCertPoolFromSignedData accepts a master list although %s: %+v", strings.Join(bad, ", "), m), m,
										func() bool { a, _, _, _ := mlRun(m); return a })
								case acc && !poolOK:
									c.Outcome(sec, "ACCEPTED-WRONG-POOL")
									c.Violation(sec, "ml-pool-differs-from-signed-list", fmt.Sprintf("the pool built from a valid master list does not contain exactly the signed certificates: %+v", m), m, nil)
								case acc:
									c.Outcome(sec, "accepted-valid")
								case len(bad) == 0:
									c.Outcome(sec, "refused-valid(converse,informational)")
									nConv++
									c.Note(fmt.Sprintf("valid master list refused: %+v: %s", m, errs))
								default:
									c.Outcome(sec, "refused-invalid")
								}
							}
						}
					}
				}
			}
		}
	}
	c.SecBound(sec, fmt.Sprintf("2 profiles x content {genuine, attacker's} x messageDigest {genuine, recomputed} x signature {genuine, attacker key} x signer certificate {genuine, attacker(AKI=genuine SKI), attacker(AKI=attacker SKI), self-signed} x root {genuine, other key with genuine SKI, attacker CSCA} x embedded attacker CSCA {no, yes} x signer extendedKeyUsage {masterListSigner, none (= a document signer), serverAuth}: %d tuples", n))
}

// ------------------------------------------------------------------------------------------------
// replay

func hexFiles(f files) string {
	var sb strings.Builder
	var nums []int
	for n := range f.dgs {
		nums = append(nums, n)
	}
	sort.Ints(nums)
	for _, n := range nums {
		fmt.Fprintf(&sb, "  DG%d=%s\n", n, vc.Hex(f.dgs[n]))
	}
	fmt.Fprintf(&sb, "  EF.SOD=%s\n", vc.Hex(f.sod))
	if f.cardSec != nil {
		fmt.Fprintf(&sb, "  EF.CardSecurity=%s\n", vc.Hex(f.cardSec))
	}
	for i, s := range f.store {
		fmt.Fprintf(&sb, "  trust store[%d]=%s\n", i, vc.Hex(s))
	}
	return sb.String()
}

func replay(c *vc.Ctx, raw json.RawMessage) string {
	var doc struct {
		Section string          `json:"section"`
		Key     string          `json:"key"`
		Case    json.RawMessage `json:"case"`
	}
	if err := json.Unmarshal(raw, &doc); err != nil {
		return "cannot decode: " + err.Error()
	}
	var kind struct {
		Kind string `json:"kind"`
	}
	json.Unmarshal(doc.Case, &kind)
	if err := refpki.EnsureKeys(); err != nil {
		return "EnsureKeys: " + err.Error()
	}
	switch kind.Kind {
	case "multisigner":
		var m msCase
		if err := json.Unmarshal(doc.Case, &m); err != nil {
			return err.Error()
		}
		acc, v, herr := msRun(m)
		if herr != nil {
			return herr.Error()
		}
		if acc {
			for _, k := range m.Signers {
				if !msValid(k) {
					c.Violation(doc.Section, "accept-invalid/signer-set-contains/"+k, fmt.Sprintf("Success for signers %v", m.Signers), m, nil)
					break
				}
			}
		}
		return fmt.Sprintf("signers %v -> success=%v stage=%s err=%s", m.Signers, acc, v.Stage, v.Err)
	case "history":
		var hc histCase
		if err := json.Unmarshal(doc.Case, &hc); err != nil {
			return err.Error()
		}
		if len(hc.States) == 0 {
			return "empty history"
		}
		for _, s := range hc.States {
			if int(s.Prof) >= len(allProfiles) || s.Cert >= nCerts || s.Store >= nStores || s.CS > 4 {
				return "state out of range"
			}
		}
		histCheck(c, doc.Section, hc.States)
		v := histRun(hc.States)
		fr := runPA(concretise(hc.States[len(hc.States)-1]))
		return fmt.Sprintf("history: %s\nground truth of the last state (violated conditions): %v\nre-used Document: Success=%v stage=%s err=%s panic=%s\nfresh Document:   Success=%v stage=%s err=%s", histString(hc.States), truth(hc.States[len(hc.States)-1]), v.Success, v.Stage, v.Err, v.Panic, fr.Success, fr.Stage, fr.Err)
	case "state":
		var sc stateCase
		if err := json.Unmarshal(doc.Case, &sc); err != nil {
			return err.Error()
		}
		s := sc.State
		if int(s.Prof) >= len(allProfiles) || s.Cert >= nCerts || s.Store >= nStores || s.CS > 4 {
			return "state out of range"
		}
		var conv []string
		n := 0
		checkState(c, doc.Section, s, &conv, &n)
		f := concretise(s)
		v := runPA(f)
		return fmt.Sprintf("state: %s\nground truth (violated conditions): %v\nPassiveAuth: Success=%v stage=%s err=%s panic=%s\n%s", s, truth(s), v.Success, v.Stage, v.Err, v.Panic, hexFiles(f))
	case "sweep":
		var sc sweepCase
		if err := json.Unmarshal(doc.Case, &sc); err != nil {
			return err.Error()
		}
		p, ok := profByName(sc.Profile)
		if !ok {
			return "unknown profile"
		}
		d := sweepDocFor(p)
		for _, rg := range sweepRegions(d) {
			if rg.file == sc.File && rg.name == sc.Region && sc.Off >= rg.r.Off && sc.Off < rg.r.End() {
				sweepOne(c, doc.Section, p, d, rg, sc.Off, byte(sc.Val))
				f := applySweep(d, sc.File, sc.Off, byte(sc.Val))
				v := runPA(f)
				return fmt.Sprintf("%+v\nPassiveAuth: Success=%v stage=%s err=%s panic=%s\n%s", sc, v.Success, v.Stage, v.Err, v.Panic, hexFiles(f))
			}
		}
		return "offset is not inside the named authenticated region"
	case "sigrange":
		var sc sigRangeCase
		if err := json.Unmarshal(doc.Case, &sc); err != nil {
			return err.Error()
		}
		f, err := sigRangeFiles(sc)
		if err != nil {
			return err.Error()
		}
		v := runPA(f)
		if v.Panic != "" {
			c.Violation(doc.Section, panicKey(v)+"/key-on-"+sc.Curve, "PassiveAuth panicked: "+v.Panic, sc, nil)
		} else if v.Success {
			c.Violation(doc.Section, doc.Key, "PassiveAuth reports Success", sc, nil)
		}
		return fmt.Sprintf("%+v\nPassiveAuth: Success=%v stage=%s err=%s panic=%s stack=%s\n%s", sc, v.Success, v.Stage, v.Err, v.Panic, v.Stack, hexFiles(f))
	case "ml":
		var m mlCase
		if err := json.Unmarshal(doc.Case, &m); err != nil {
			return err.Error()
		}
		bad := mlTruth(m)
		acc, poolOK, errs, pn := mlRun(m)
		if pn != "" || (acc && len(bad) > 0) || (acc && !poolOK) {
			c.Violation(doc.Section, doc.Key, fmt.Sprintf("accepted=%v poolOK=%v panic=%s truth=%v", acc, poolOK, pn, bad), m, nil)
		}
		ml, root, _, _ := mlBuild(m)
		return fmt.Sprintf("%+v\nground truth (violated conditions): %v\nCreateCertPoolFromSignedData: accepted=%v pool-as-signed=%v err=%s panic=%s\n  masterlist=%s\n  root=%s", m, bad, acc, poolOK, errs, pn, vc.Hex(ml), vc.Hex(root))
	}
	return "unknown case kind " + kind.Kind
}
