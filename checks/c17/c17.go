package c17

import (
	"bytes"
	"encoding/json"
	"fmt"

	"github.com/gmrtd/gmrtd/iso7816"

	"verif/internal/ref7816"
	"verif/internal/vc"
)

func init() {
	vc.Register(&vc.Check{ID: "C17", Level: "exploration", Run: c17Run, Replay: c17Replay, QuickSec: 150, ThoroSec: 900,
		Rule: "commands: every data length 0..65535 x Le boundary set and every Le 0..65536 x data-length boundary set (x headers); each encoding parsed by the independent ISO 7816-4 parser ref7816 and compared (header, data, Le, short/extended form). responses: all byte strings of length 0..2 (thorough 0..3) plus structured ones up to 64 KiB. distinct_nontrivial = distinct (iso case, Lc/Le field bytes) classes of commands + distinct response (length class, SW) classes",
		Assume: []string{"ref7816 implements ISO/IEC 7816-4 §5.2 command cases correctly (independent, 90 lines)"}})
}

type c17Case struct {
	CLA, INS, P1, P2 byte
	DataLen, Le      int
}

func c17Data(n int) []byte {
	d := make([]byte, n)
	for i := range d {
		d[i] = byte(i*7 + 1)
	}
	return d
}

func c17BucketLen(n int) string {
	switch {
	case n == 0:
		return "0"
	case n <= 255:
		return "1..255"
	case n < 65280:
		return "256..65279"
	default:
		return "65280..65535"
	}
}
func c17BucketLe(n int) string {
	switch {
	case n == 0:
		return "0"
	case n <= 256:
		return "1..256"
	case n < 65536:
		return "257..65535"
	default:
		return "65536"
	}
}

// c17One evaluates one command; returns "" if ok else (key, what).
func c17One(k c17Case, data []byte) (key, what, class string) {
	var enc []byte
	if pv, _ := vc.Guard(func() {
		enc = iso7816.NewCApdu(k.CLA, k.INS, k.P1, k.P2, data, k.Le).Encode()
	}); pv != nil {
		return "cmd/panic", fmt.Sprintf("Encode panicked: %v", pv), ""
	}
	wantShort := k.DataLen <= 255 && k.Le <= 256
	// expected ISO case, from the inputs alone
	exp := "1"
	switch {
	case k.DataLen == 0 && k.Le > 0:
		exp = "2"
	case k.DataLen > 0 && k.Le == 0:
		exp = "3"
	case k.DataLen > 0 && k.Le > 0:
		exp = "4"
	}
	if exp != "1" {
		if wantShort {
			exp += "S"
		} else {
			exp += "E"
		}
	}
	bucket := "case" + exp
	if exp == "2E" && len(enc) == 6 && enc[0] == k.CLA && enc[1] == k.INS && enc[2] == k.P1 && enc[3] == k.P2 && enc[4] == byte(k.Le>>8) && enc[5] == byte(k.Le) {
		// specific signature (and nothing else): header followed by exactly LeHi LeLo - the extended Le emitted as 2 bytes
		// without the leading 00 that case 2E requires; any other 6-byte output gets its own key
		return "cmd/case2E/le-field-without-leading-00", fmt.Sprintf("datalen=0 le=%d: encoded as %s (6 bytes); ISO 7816-4 case 2E is CLA INS P1 P2 00 LeHi LeLo (7 bytes)", k.Le, vc.Hex(enc)), ""
	}
	if k.DataLen >= 65280 {
		bucket += ",datalen>=65280"
	}
	p, err := ref7816.ParseCommand(enc)
	if err != nil {
		return "cmd/unparseable:" + bucket, fmt.Sprintf("datalen=%d le=%d: encoding %s… is not a valid ISO 7816-4 command: %v", k.DataLen, k.Le, vc.Hex(enc[:min(len(enc), 12)]), err), ""
	}
	class = p.Case
	if p.CLA != k.CLA || p.INS != k.INS || p.P1 != k.P1 || p.P2 != k.P2 {
		return "cmd/header:" + bucket, fmt.Sprintf("datalen=%d le=%d: header differs", k.DataLen, k.Le), class
	}
	if !bytes.Equal(p.Data, data) {
		return "cmd/data:" + bucket, fmt.Sprintf("datalen=%d le=%d: independent parser recovers %d data bytes (case %s), first bytes %s", k.DataLen, k.Le, len(p.Data), p.Case, vc.Hex(enc[:min(len(enc), 12)])), class
	}
	if p.Le != k.Le {
		return "cmd/le:" + bucket, fmt.Sprintf("datalen=%d le=%d: independent parser recovers Le=%d (case %s), encoding head %s tail %s", k.DataLen, k.Le, p.Le, p.Case, vc.Hex(enc[:min(len(enc), 8)]), vc.Hex(enc[max(0, len(enc)-4):])), class
	}
	if p.Extended == wantShort && (k.DataLen > 0 || k.Le > 0) {
		return "cmd/form:" + bucket, fmt.Sprintf("datalen=%d le=%d: extended=%v but short form suffices=%v", k.DataLen, k.Le, p.Extended, wantShort), class
	}
	return "", "", class
}

func c17Run(c *vc.Ctx) {
	headers := [][4]byte{{0x00, 0xA4, 0x04, 0x0C}, {0x0C, 0xB0, 0x7F, 0xFF}, {0xFF, 0xFF, 0xFF, 0xFF}}
	leSet := []int{0, 1, 2, 255, 256, 257, 65535, 65536}
	dlSet := []int{0, 1, 2, 254, 255, 256, 257, 65279, 65280, 65535}
	nh := 1
	if c.Thorough() {
		nh = 3
	}
	eval := func(sec string, k c17Case, data []byte) {
		key, what, class := c17One(k, data)
		if key != "" {
			kk := k
			c.Violation(sec, key, what, kk, func() bool { k2, _, _ := c17One(kk, c17Data(kk.DataLen)); return k2 != "" })
			c.Outcome(sec, "violation")
		} else {
			c.Outcome(sec, "ok:"+class)
		}
		c.Distinct(fmt.Sprintf("%s/%s/%s", class, c17BucketLen(k.DataLen), c17BucketLe(k.Le)))
	}
	// (a) every data length x Le set
	secA := "cmd:all-datalen x Le-set"
	c.SecBound(secA, fmt.Sprintf("datalen 0..65535 x Le %v x %d header(s)", leSet, nh))
	for h := 0; h < nh; h++ {
		for dl := 0; dl <= 65535; dl++ {
			if !c.Mine() {
				continue
			}
			if c.Expired() {
				c.SecNotExhaustive(secA, fmt.Sprintf("deadline at header %d datalen %d", h, dl))
				goto partB
			}
			data := c17Data(dl)
			for _, le := range leSet {
				eval(secA, c17Case{headers[h][0], headers[h][1], headers[h][2], headers[h][3], dl, le}, data)
			}
			if dl == 300 && h == 0 {
				c.Sample(map[string]any{"header": vc.Hex(headers[h][:]), "datalen": dl, "le": 257, "encoding_head": vc.Hex(iso7816.NewCApdu(headers[h][0], headers[h][1], headers[h][2], headers[h][3], data, 257).Encode()[:10])})
			}
		}
	}
partB:
	// (b) every Le x data-length set
	secB := "cmd:all-Le x datalen-set"
	c.SecBound(secB, fmt.Sprintf("Le 0..65536 x datalen %v x %d header(s)", dlSet, nh))
	for h := 0; h < nh; h++ {
		for _, dl := range dlSet {
			data := c17Data(dl)
			for le0 := 0; le0 <= 65536; le0 += 256 {
				if !c.Mine() {
					continue
				}
				if c.Expired() {
					c.SecNotExhaustive(secB, "deadline")
					goto partC
				}
				for le := le0; le < le0+256 && le <= 65536; le++ {
					eval(secB, c17Case{headers[h][0], headers[h][1], headers[h][2], headers[h][3], dl, le}, data)
				}
			}
		}
	}
partC:
	// (c) all headers on the full boundary product (256 CLA x boundary), cheap
	secC := "cmd:all CLA/INS bytes x boundary product"
	small := []int{0, 1, 255, 256, 257}
	for b := 0; b < 256; b++ {
		if !c.Mine() {
			continue
		}
		for _, dl := range small {
			data := c17Data(dl)
			for _, le := range []int{0, 1, 256, 257, 65536} {
				eval(secC, c17Case{byte(b), byte(255 - b), byte(b ^ 0x5a), byte(b * 3), dl, le}, data)
			}
		}
	}
	// (d) responses
	secD := "resp"
	maxLen := 2
	if c.Thorough() {
		maxLen = 3
	}
	c.SecBound(secD, fmt.Sprintf("all byte strings of length 0..%d; structured lengths {4,255,256,257,65535,65536,65538} x 6 SWs", maxLen))
	respOne := func(b []byte) {
		var r *iso7816.RApdu
		var err error
		if pv, _ := vc.Guard(func() { r, err = iso7816.ParseRApdu(b) }); pv != nil {
			c.Violation(secD, "resp/panic", fmt.Sprintf("ParseRApdu panicked on %d bytes: %v", len(b), pv), vc.Hex(b), nil)
			return
		}
		d, sw, rerr := ref7816.SplitResponse(b)
		switch {
		case rerr != nil && err == nil:
			c.Violation(secD, "resp/short-accepted", fmt.Sprintf("response of %d byte(s) accepted", len(b)), vc.Hex(b), nil)
		case rerr == nil && err != nil:
			c.Violation(secD, "resp/rejected", fmt.Sprintf("response of %d bytes rejected: %v", len(b), err), vc.Hex(b[:min(len(b), 16)]), nil)
		case rerr == nil:
			if !bytes.Equal(r.Data, d) || r.Status != sw {
				c.Violation(secD, "resp/split", fmt.Sprintf("response of %d bytes split wrongly (sw %04x vs %04x)", len(b), r.Status, sw), vc.Hex(b[:min(len(b), 16)]), nil)
			} else if !bytes.Equal(r.Encode(), b) {
				c.Violation(secD, "resp/reencode", fmt.Sprintf("response of %d bytes does not re-encode to itself", len(b)), vc.Hex(b[:min(len(b), 16)]), nil)
			}
		}
		if rerr != nil {
			c.Outcome(secD, "short->error")
			c.Distinct(fmt.Sprintf("resp-short-%d", len(b)))
		} else {
			c.Outcome(secD, "split")
			c.Distinct(fmt.Sprintf("resp-%d-%04x", min(len(b), 4), sw))
		}
	}
	for l := 0; l <= maxLen; l++ {
		total := 1
		for i := 0; i < l; i++ {
			total *= 256
		}
		for blk := 0; blk < total; blk += 65536 {
			if !c.Mine() {
				continue
			}
			for v := blk; v < blk+65536 && v < total; v++ {
				b := make([]byte, l)
				x := v
				for i := l - 1; i >= 0; i-- {
					b[i] = byte(x)
					x >>= 8
				}
				respOne(b)
			}
		}
	}
	for _, l := range []int{4, 255, 256, 257, 65535, 65536, 65538} {
		for _, sw := range []uint16{0x9000, 0x6A82, 0x6282, 0x0000, 0xFFFF, 0x6100} {
			if !c.Mine() {
				continue
			}
			b := append(c17Data(l-2), byte(sw>>8), byte(sw))
			respOne(b)
		}
	}
	if c.Shard == 0 {
		c.Sample(map[string]any{"response": "aabb9000", "split": "data=aabb sw=9000"})
	}
}

func c17Replay(c *vc.Ctx, raw json.RawMessage) string {
	var doc struct {
		Section string          `json:"section"`
		Case    json.RawMessage `json:"case"`
	}
	json.Unmarshal(raw, &doc)
	if doc.Section == "resp" {
		var hx string
		json.Unmarshal(doc.Case, &hx)
		r, err := iso7816.ParseRApdu(vc.Unhex(hx))
		return fmt.Sprintf("ParseRApdu(%s) = %v, %v", hx, r, err)
	}
	var k c17Case
	json.Unmarshal(doc.Case, &k)
	enc := iso7816.NewCApdu(k.CLA, k.INS, k.P1, k.P2, c17Data(k.DataLen), k.Le).Encode()
	key, what, class := c17One(k, c17Data(k.DataLen))
	if key != "" {
		c.Violation(doc.Section, key, what, k, nil)
	}
	return fmt.Sprintf("NewCApdu(%02x %02x %02x %02x, %d data bytes, le=%d).Encode() = %s…%s (%d bytes); independent parse: case %s; verdict: %s %s",
		k.CLA, k.INS, k.P1, k.P2, k.DataLen, k.Le, vc.Hex(enc[:min(len(enc), 10)]), vc.Hex(enc[max(0, len(enc)-4):]), len(enc), class, key, what)
}
