// Package c03: secure messaging delivers only authenticated, in-sequence responses.
package c03

import (
	"bytes"
	"encoding/json"
	"fmt"

	"github.com/gmrtd/gmrtd/iso7816"

	"verif/internal/refcrypto"
	"verif/internal/smdrv"
	"verif/internal/vc"
)

func init() {
	vc.Register(&vc.Check{ID: "C03", Level: "model_checking", Run: run, Replay: replay, QuickSec: 150, ThoroSec: 1500,
		Rule:   "stateless exploration of the real NfcSession.DoAPDU + SecureMessaging against the independent chip-side SM: for 4 algorithms x 3 initial counters (0, mid, about to wrap) x histories of 3 exchanges over 8 command shapes x 12 response shapes, at EACH exchange the attacker's complete menu (every single-bit flip, every truncation, every single-byte deletion, every DO deletion/duplication/permutation, every subset of the data objects with its length field in each longer form (81/82/83/84), MACs of every shorter length incl. empty, every foreign / re-tagged (85<->87) data object injected at or substituted for every position, outer-SW replacement, replay of every earlier genuine response, parallel-session response at the same counter, unprotected data||SW and bare SW) is applied as the one deviation (D=1; D<=3 by explicit-state search with canonical state merging on small shapes) and the history continues genuinely. Oracle per exchange: error, or exactly the (data,status) the chip protected for that exchange AND only for the bytes the chip sent (an altered response must not be delivered even when the delivered data and status would be the genuine ones). distinct_nontrivial = distinct (alg, ssc class, position, command shape, response shape, mutation kind, outcome) tuples; states = executions (history x deviation), transitions = exchanges run",
		Assume: []string{"MAC forgery (2^-64) is not searched", "chip-side SM refcrypto.SM is anchored to ICAO 9303-11 App. D.4 by SelfTest"}})
}

type cmdShape struct {
	Name string
	INS  byte
	Rel  int // data length relative to block size: 0 none; otherwise value as given below
	Le   int
}

// data length for shape given block size
func (s cmdShape) dataLen(block int) int {
	switch s.Rel {
	case 0:
		return 0
	case -1:
		return block - 1
	case -2:
		return block
	case -3:
		return block + 1
	default:
		return s.Rel
	}
}

var cmdShapes = []cmdShape{
	{"case1", 0xA4, 0, 0},
	{"case2-le4", 0xB0, 0, 4},
	{"case3-1byte", 0xA4, 1, 0},
	{"case3-block-1", 0x22, -1, 0},
	{"case3-block", 0x22, -2, 0},
	{"case4-block+1", 0x88, -3, 256},
	{"case4-oddINS", 0xB1, 5, 256},
	{"case2-ext-le1000", 0xB0, 0, 1000},
}

type respShape struct {
	Rel int // 0,1,-2 (block),40
	SW  uint16
}

func (r respShape) dataLen(block int) int {
	if r.Rel == -2 {
		return block
	}
	return r.Rel
}

var respShapes = func() []respShape {
	var out []respShape
	for _, l := range []int{0, 1, -2, 40} {
		for _, sw := range []uint16{0x9000, 0x6A82, 0x6282} {
			out = append(out, respShape{l, sw})
		}
	}
	return out
}()

type exch struct {
	C cmdShape
	R respShape
}

func pattern(n int, salt byte) []byte {
	b := make([]byte, n)
	for i := range b {
		b[i] = byte(i)*13 + salt
	}
	return b
}

type cfg struct {
	Alg refcrypto.Alg
	SSC int
}

// deviation: at exchange Pos deliver Bytes instead of the genuine response.
type deviation struct {
	Pos   int
	Kind  string
	Bytes []byte
}

type obs struct {
	Err    bool
	Data   []byte
	Status uint16
}

type runResult struct {
	Genuine   [][]byte // genuine protected responses
	Expected  []obs    // what the chip protected per exchange
	Got       []obs
	LibSSC    [][]byte // terminal counter after each exchange (canonical state key for pruning)
	ChipKey   string   // chip-side state after the run: session alive? counter
	ChipErr   string   // chip could not authenticate a genuine command (position recorded)
	ChipErrAt int
}

// runHistory executes hist on fresh objects. keysLabel selects the key pair.
func runHistory(c cfg, hist []exch, devs []deviation, keysLabel string) *runResult {
	enc, mac := smdrv.Keys(c.Alg, keysLabel)
	ssc := smdrv.SSCStart(c.Alg, c.SSC)
	chip := refcrypto.NewSM(c.Alg, enc, mac, ssc)
	lib, err := smdrv.NewLibSM(c.Alg, enc, mac, ssc)
	if err != nil {
		panic(err)
	}
	res := &runResult{ChipErrAt: -1}
	block := c.Alg.Block()
	chipAlive := true
	w := &smdrv.Wire{}
	w.F = func(n int, cmd []byte) []byte {
		e := hist[n]
		var pc *refcrypto.PlainCmd
		var err error
		if chipAlive {
			pc, err = smdrv.ChipUnwrap(chip, cmd)
		} else {
			err = fmt.Errorf("chip aborted the session earlier")
		}
		var genuine []byte
		rd := pattern(e.R.dataLen(block), byte(n+1))
		if err != nil {
			chipAlive = false // 9303-11: a secure-messaging error aborts the session
			if res.ChipErrAt < 0 {
				res.ChipErr, res.ChipErrAt = err.Error(), n
			}
			// a chip that cannot authenticate the command aborts SM: bare status
			genuine = []byte{0x69, 0x88}
			res.Expected = append(res.Expected, obs{Err: true})
		} else {
			_ = pc
			genuine = chip.Wrap(rd, e.R.SW, e.C.INS&1 == 1)
			res.Expected = append(res.Expected, obs{Data: rd, Status: e.R.SW})
		}
		res.Genuine = append(res.Genuine, genuine)
		for _, d := range devs {
			if d.Pos == n {
				return d.Bytes
			}
		}
		return genuine
	}
	nfc := iso7816.NewNfcSession(w)
	nfc.SetSecureMessaging(lib)
	for i, e := range hist {
		var data []byte
		if dl := e.C.dataLen(block); dl > 0 {
			data = pattern(dl, byte(0x40+i))
		}
		var r *iso7816.RApdu
		var derr error
		pv, _ := vc.Guard(func() {
			r, derr = nfc.DoAPDU(iso7816.NewCApdu(0x00, e.C.INS, byte(i), 0x0C, data, e.C.Le), "x")
		})
		switch {
		case pv != nil:
			res.Got = append(res.Got, obs{Err: true, Status: 0xFFFF}) // marks panic
		case derr != nil || r == nil:
			res.Got = append(res.Got, obs{Err: true})
		default:
			res.Got = append(res.Got, obs{Data: r.Data, Status: r.Status})
		}
		res.LibSSC = append(res.LibSSC, lib.SSC())
	}
	res.ChipKey = fmt.Sprintf("alive=%v/ssc=%x", chipAlive, chip.SSCBytes())
	return res
}

type do struct{ raw []byte }

func splitDOs(b []byte) []do {
	var out []do
	for len(b) >= 2 {
		l, hl := int(b[1]), 2
		if b[1] == 0x81 && len(b) >= 3 {
			l, hl = int(b[2]), 3
		} else if b[1] == 0x82 && len(b) >= 4 {
			l, hl = int(b[2])<<8|int(b[3]), 4
		}
		if len(b) < hl+l {
			break
		}
		out = append(out, do{b[:hl+l]})
		b = b[hl+l:]
	}
	return out
}

func permutations(n int) [][]int {
	if n == 1 {
		return [][]int{{0}}
	}
	var out [][]int
	for _, p := range permutations(n - 1) {
		for pos := 0; pos <= len(p); pos++ {
			q := append(append(append([]int{}, p[:pos]...), n-1), p[pos:]...)
			out = append(out, q)
		}
	}
	return out
}

// menu builds the attacker's complete menu for one exchange.
func menu(genuine []byte, earlier [][]byte, parallel []byte, plainData []byte, sw uint16) []deviation {
	var out []deviation
	add := func(kind string, b []byte) {
		if !bytes.Equal(b, genuine) {
			out = append(out, deviation{Kind: kind, Bytes: b})
		}
	}
	for i := 0; i < len(genuine)*8; i++ {
		m := bytes.Clone(genuine)
		m[i/8] ^= 1 << (i % 8)
		add("bitflip", m)
	}
	for l := 0; l < len(genuine); l++ {
		add("truncate", bytes.Clone(genuine[:l]))
	}
	for i := 0; i < len(genuine); i++ {
		add("delete-byte", append(bytes.Clone(genuine[:i]), genuine[i+1:]...))
	}
	if len(genuine) < 2 {
		return out
	}
	body, swb := genuine[:len(genuine)-2], genuine[len(genuine)-2:]
	dos := splitDOs(body)
	join := func(idx []int) []byte {
		var b []byte
		for _, i := range idx {
			b = append(b, dos[i].raw...)
		}
		return append(b, swb...)
	}
	for i := range dos {
		var idx []int
		for j := range dos {
			if j != i {
				idx = append(idx, j)
			}
		}
		add("do-delete", join(idx))
		idx = nil
		for j := range dos {
			idx = append(idx, j)
			if j == i {
				idx = append(idx, j)
			}
		}
		add("do-duplicate", join(idx))
	}
	if len(dos) >= 2 {
		for _, p := range permutations(len(dos)) {
			add("do-permute", join(p))
		}
	}
	// every data object (and every subset of them) with its length field rewritten in a longer form: the value
	// octets are untouched, only the bytes on the wire differ from what the chip sent and authenticated
	reLen := func(d do, form int) []byte {
		l, hl := int(d.raw[1]), 2
		if d.raw[1] == 0x81 {
			l, hl = int(d.raw[2]), 3
		} else if d.raw[1] == 0x82 {
			l, hl = int(d.raw[2])<<8|int(d.raw[3]), 4
		}
		var lf []byte
		switch form {
		case 1:
			lf = []byte{0x81, byte(l)}
		case 2:
			lf = []byte{0x82, byte(l >> 8), byte(l)}
		case 3:
			lf = []byte{0x83, 0, byte(l >> 8), byte(l)}
		default:
			lf = []byte{0x84, 0, 0, byte(l >> 8), byte(l)}
		}
		if form == 1 && l > 255 {
			return nil
		}
		return append(append([]byte{d.raw[0]}, lf...), d.raw[hl:]...)
	}
	for mask := 1; mask < 1<<len(dos); mask++ {
		for form := 1; form <= 4; form++ {
			var b []byte
			ok := true
			for i, d := range dos {
				if mask>>i&1 == 1 {
					r := reLen(d, form)
					if r == nil {
						ok = false
						break
					}
					b = append(b, r...)
				} else {
					b = append(b, d.raw...)
				}
			}
			if ok {
				add("length-form", append(b, swb...))
			}
		}
	}
	for _, s := range []uint16{0x9000, 0x6A82, 0x6282, 0x6982, 0x6300} {
		add("outer-sw", append(bytes.Clone(body), byte(s>>8), byte(s)))
	}
	for _, e := range earlier {
		add("replay-earlier", bytes.Clone(e))
	}
	if parallel != nil {
		add("cross-session", bytes.Clone(parallel))
	}
	add("unprotected-data-sw", append(bytes.Clone(plainData), byte(sw>>8), byte(sw)))
	add("bare-sw", []byte{byte(sw >> 8), byte(sw)})
	add("bare-9000", []byte{0x90, 0x00})
	// a syntactically valid SM response with a zero MAC
	if len(body) >= 10 {
		add("zero-mac", append(append(bytes.Clone(body[:len(body)-8]), make([]byte, 8)...), swb...))
	}
	// DO'8E' of every shorter length (prefix of the genuine MAC, and zeros), incl. the empty MAC
	if len(dos) >= 1 {
		last := dos[len(dos)-1].raw
		if last[0] == 0x8E && len(last) == 10 {
			pre := body[:len(body)-10]
			for l := 0; l < 8; l++ {
				add("short-mac", append(append(append(bytes.Clone(pre), 0x8E, byte(l)), last[2:2+l]...), swb...))
				add("short-mac", append(append(append(bytes.Clone(pre), 0x8E, byte(l)), make([]byte, l)...), swb...))
			}
			add("long-mac", append(append(append(bytes.Clone(pre), 0x8E, 9), append(bytes.Clone(last[2:]), 0)...), swb...))
		}
	}
	// forged responses (content differs from the genuine one) closed with a MAC of every length 0..8 (zeros / genuine prefix)
	{
		var gmac []byte
		if len(dos) >= 1 && dos[len(dos)-1].raw[0] == 0x8E {
			gmac = dos[len(dos)-1].raw[2:]
		}
		for _, fsw := range []uint16{0x9000, 0x6A82} {
			for _, withData := range []bool{false, true} {
				var content []byte
				if withData {
					content = append(content, 0x87, 0x09, 0x01, 0x11, 0x22, 0x33, 0x44, 0x55, 0x66, 0x77, 0x88)
				}
				content = append(content, 0x99, 0x02, byte(fsw>>8), byte(fsw))
				for l := 0; l <= 8; l++ {
					for _, src := range [][]byte{make([]byte, 8), gmac} {
						if len(src) < l {
							continue
						}
						r := append(append(bytes.Clone(content), 0x8E, byte(l)), src[:l]...)
						add("forged-content-with-short-or-guessed-mac", append(r, byte(fsw>>8), byte(fsw)))
					}
				}
			}
		}
	}
	// foreign data objects: every DO of every earlier genuine response and of the parallel session, as it is and
	// re-tagged 85<->87, injected at every position and substituted for every genuine DO
	var foreign [][]byte
	collect := func(resp []byte) {
		if len(resp) < 2 {
			return
		}
		for _, d := range splitDOs(resp[:len(resp)-2]) {
			foreign = append(foreign, d.raw)
			if d.raw[0] == 0x87 || d.raw[0] == 0x85 {
				r := bytes.Clone(d.raw)
				r[0] ^= 0x02 // 85 <-> 87
				foreign = append(foreign, r)
			}
		}
	}
	for _, e := range earlier {
		collect(e)
	}
	if parallel != nil {
		collect(parallel)
	}
	// the genuine data object re-tagged, and a fabricated one
	for _, d := range dos {
		if d.raw[0] == 0x87 || d.raw[0] == 0x85 {
			r := bytes.Clone(d.raw)
			r[0] ^= 0x02
			foreign = append(foreign, r)
		}
	}
	foreign = append(foreign, []byte{0x85, 0x09, 0x01, 1, 2, 3, 4, 5, 6, 7, 8}, []byte{0x87, 0x11, 0x01, 1, 2, 3, 4, 5, 6, 7, 8, 9, 10, 11, 12, 13, 14, 15, 16})
	seenF := map[string]bool{}
	for _, f := range foreign {
		if seenF[string(f)] {
			continue
		}
		seenF[string(f)] = true
		for pos := 0; pos <= len(dos); pos++ {
			var b2 []byte
			for i, d := range dos {
				if i == pos {
					b2 = append(b2, f...)
				}
				b2 = append(b2, d.raw...)
			}
			if pos == len(dos) {
				b2 = append(b2, f...)
			}
			add("inject-foreign-do", append(b2, swb...))
		}
		for rep := range dos {
			var b2 []byte
			for i, d := range dos {
				if i == rep {
					b2 = append(b2, f...)
				} else {
					b2 = append(b2, d.raw...)
				}
			}
			add("substitute-foreign-do", append(b2, swb...))
		}
	}
	return out
}

type caseRec struct {
	Alg  int      `json:"alg"`
	SSC  int      `json:"ssc"`
	Hist []exch   `json:"hist"`
	Devs []devRec `json:"devs"`
}
type devRec struct {
	Pos   int    `json:"pos"`
	Kind  string `json:"kind"`
	Bytes string `json:"bytes"`
}

func eqData(a, b []byte) bool { return len(a) == len(b) && (len(a) == 0 || bytes.Equal(a, b)) }

// judge compares observations with the chip's truth; returns violation key/what or "".
func judge(r *runResult, devs []deviation) (string, string) {
	for i, g := range r.Got {
		if g.Err && g.Status == 0xFFFF {
			return "panic", fmt.Sprintf("exchange %d panicked", i)
		}
		if g.Err {
			continue
		}
		e := r.Expected[i]
		// stated explicitly by the property: nothing reaches the caller unless the protected status equals
		// the outer status
		for _, d := range devs {
			if d.Pos == i && d.Kind == "outer-sw" {
				return "delivered-despite-outer-status-mismatch", fmt.Sprintf("exchange %d: outer status word %x differs from the protected status %04x, yet data/status were delivered", i, d.Bytes[len(d.Bytes)-2:], e.Status)
			}
		}
		// "any modified, truncated, re-ordered ... response yields an error": a response whose bytes are not the ones
		// the chip sent must not be delivered at all - not even when the data and status that reach the caller
		// happen to be the genuine ones (further / repeated / re-ordered data objects, other length forms)
		for _, d := range devs {
			if d.Pos == i && i < len(r.Genuine) && !bytes.Equal(d.Bytes, r.Genuine[i]) && eqData(g.Data, e.Data) && g.Status == e.Status && !e.Err {
				return "modified-response-delivered/" + d.Kind, fmt.Sprintf("exchange %d: the response was altered on the wire (%s: %x instead of %x) and was delivered without error", i, d.Kind, d.Bytes, r.Genuine[i])
			}
		}
		if e.Err || !eqData(g.Data, e.Data) || g.Status != e.Status {
			kind := "after-deviation"
			for _, d := range devs {
				if d.Pos == i {
					kind = d.Kind
				}
			}
			// narrow signature of one root cause: an earlier exchange was answered with a bare status word
			// (2 bytes), after which the terminal rolls its counter back, so material the chip produced for the
			// suppressed exchange authenticates as the answer to the next command
			for _, d := range devs {
				if d.Pos < i && len(d.Bytes) == 2 {
					kind = "after-bare-status-response"
				}
			}
			return "accepted-unauthentic/" + kind, fmt.Sprintf("exchange %d: caller received (data=%x,status=%04x) but the chip protected (err=%v,data=%x,status=%04x) for this exchange [deviation kind %s]", i, g.Data, g.Status, e.Err, e.Data, e.Status, kind)
		}
	}
	return "", ""
}

func recOf(c cfg, hist []exch, devs []deviation) caseRec {
	cr := caseRec{Alg: int(c.Alg), SSC: c.SSC, Hist: hist}
	for _, d := range devs {
		cr.Devs = append(cr.Devs, devRec{d.Pos, d.Kind, vc.Hex(d.Bytes)})
	}
	return cr
}

func run(c *vc.Ctx) {
	if err := refcrypto.SelfTest(); err != nil {
		c.HarnessError("refcrypto self-test: %v", err)
		return
	}
	const H = 3
	filler := []exch{{cmdShapes[1], respShapes[6]}, {cmdShapes[2], respShapes[0]}, {cmdShapes[5], respShapes[9]}}
	explore := func(sec string, cf cfg, hist []exch, pos int) {
		gen := runHistory(cf, hist, nil, "main")
		c.AddStates(1)
		c.AddTrans(int64(len(hist)))
		if gen.ChipErrAt >= 0 {
			c.Violation(sec, "genuine-command-rejected-by-chip", fmt.Sprintf("chip-side SM cannot authenticate the library's command at exchange %d: %s", gen.ChipErrAt, gen.ChipErr), recOf(cf, hist, nil), nil)
			return
		}
		// positive control: the genuine history must be delivered exactly
		for i, g := range gen.Got {
			e := gen.Expected[i]
			if g.Err || !eqData(g.Data, e.Data) || g.Status != e.Status {
				c.Violation(sec, "genuine-response-not-delivered", fmt.Sprintf("exchange %d of an unmodified history: got err=%v data=%x status=%04x, chip sent data=%x status=%04x", i, g.Err, g.Data, g.Status, e.Data, e.Status), recOf(cf, hist, nil), nil)
				return
			}
		}
		par := runHistory(cf, hist, nil, "parallel")
		block := cf.Alg.Block()
		m := menu(gen.Genuine[pos], gen.Genuine[:pos], par.Genuine[pos], pattern(hist[pos].R.dataLen(block), byte(pos+1)), hist[pos].R.SW)
		for _, d := range m {
			d.Pos = pos
			devs := []deviation{d}
			r := runHistory(cf, hist, devs, "main")
			c.AddStates(1)
			c.AddTrans(int64(len(hist)))
			c.AddTraces(1)
			key, what := judge(r, devs)
			out := "error"
			if !r.Got[pos].Err {
				out = "delivered-identical"
			}
			if key != "" {
				out = "VIOLATION"
				rec := recOf(cf, hist, devs)
				c.Violation(sec, key, what, rec, func() bool { k, _ := judge(runHistory(cf, hist, devs, "main"), devs); return k != "" })
			}
			after := "later-ok"
			for _, g := range r.Got[pos+1:] {
				if g.Err {
					after = "later-error"
				}
			}
			c.Outcome(sec, d.Kind+"->"+out)
			c.Distinct(fmt.Sprintf("%d/%d/%d/%s/%v/%s/%s/%s", cf.Alg, cf.SSC, pos, hist[pos].C.Name, hist[pos].R, d.Kind, out, after))
		}
		if c.Shard == 0 && pos == 1 && cf.Alg == refcrypto.AES128 && cf.SSC == 2 && hist[1].C.Name == "case2-le4" {
			c.Sample(map[string]any{"alg": cf.Alg.String(), "ssc_class": cf.SSC, "history": hist, "genuine_response_at_1": vc.Hex(gen.Genuine[1]), "menu_size": len(m)})
		}
	}
	// D = 1
	sec1 := "D=1: every exchange position x command shape x response shape x full attacker menu"
	c.SecBound(sec1, fmt.Sprintf("4 algs x 3 SSC classes x %d positions x %d command shapes x %d response shapes; history length %d; complete menu at the deviating exchange", H, len(cmdShapes), len(respShapes), H))
	for _, alg := range smdrv.Algs {
		for ssc := 0; ssc < 3; ssc++ {
			for pos := 0; pos < H; pos++ {
				for _, cs := range cmdShapes {
					for _, rs := range respShapes {
						if !c.Mine() {
							continue
						}
						if c.Expired() {
							c.SecNotExhaustive(sec1, "deadline")
							goto d2
						}
						hist := append([]exch{}, filler...)
						hist[pos] = exch{cs, rs}
						explore(sec1, cfg{alg, ssc}, hist, pos)
					}
				}
			}
		}
	}
d2:
	// Explicit-state search with a canonical state key: after each exchange the future of the session is a function of
	// (terminal counter, chip session alive?, chip counter) - keys are fixed, genuine responses are produced by the chip
	// from its own state. Every deviation of the complete menu (plus "deliver genuine") is applied in every reachable
	// state at every level; one representative path per state is kept. This covers ALL deviation sequences (D <= depth),
	// not only pairs.
	sec2 := "state search: every menu deviation in every reachable canonical state, depth 3"
	small := []exch{{cmdShapes[0], respShapes[0]}, {cmdShapes[1], respShapes[3]}, {cmdShapes[5], respShapes[9]}}
	if c.Thorough() {
		small = append(small, exch{cmdShapes[2], respShapes[1]}, exch{cmdShapes[6], respShapes[6]}, exch{cmdShapes[7], respShapes[5]})
	}
	c.SecBound(sec2, fmt.Sprintf("4 algs x SSC classes {0,wrap} x %d^3 exchange-shape triples; BFS over canonical states (terminal SSC, chip alive, chip SSC), complete menu + genuine in every state at each of 3 levels (thorough: 4 levels on a sub-family)", len(small)))
	maxStates := 0
	for _, alg := range smdrv.Algs {
		for _, ssc := range []int{0, 2} {
			for _, e0 := range small {
				for _, e1 := range small {
					for _, e2 := range small {
						if !c.Mine() {
							continue
						}
						if c.Expired() {
							c.SecNotExhaustive(sec2, "deadline")
							return
						}
						cf := cfg{alg, ssc}
						hist := []exch{e0, e1, e2}
						if c.Thorough() && e2 == small[0] && e1 == small[1] {
							// thorough: a fourth exchange on a sub-family of the histories (all deviation sequences of length <= 4)
							hist = append(hist, small[2])
						}
						block := alg.Block()
						par := runHistory(cf, hist, nil, "parallel")
						type node struct{ devs []deviation }
						frontier := []node{{}}
						total := 1
						for pos := 0; pos < len(hist); pos++ {
							next := map[string]node{}
							var order []string
							for _, nd := range frontier {
								// the genuine response at pos along this path
								g := runHistory(cf, hist[:pos+1], nd.devs, "main")
								m := menu(g.Genuine[pos], g.Genuine[:pos], par.Genuine[pos], pattern(hist[pos].R.dataLen(block), byte(pos+1)), hist[pos].R.SW)
								m = append(m, deviation{Kind: "genuine", Bytes: g.Genuine[pos]})
								for _, d := range m {
									d.Pos = pos
									devs := append(append([]deviation{}, nd.devs...), d)
									r := g
									if d.Kind != "genuine" {
										r = runHistory(cf, hist[:pos+1], devs, "main")
									}
									c.AddTrans(int64(pos + 1))
									c.AddTraces(1)
									key, what := judge(r, devs)
									if key != "" {
										dv := devs
										c.Violation(sec2, key, what, recOf(cf, hist[:pos+1], dv), func() bool { k, _ := judge(runHistory(cf, hist[:pos+1], dv, "main"), dv); return k != "" })
										c.Outcome(sec2, "VIOLATION")
									} else {
										c.Outcome(sec2, "error-or-identical")
									}
									sk := fmt.Sprintf("%x/%s", r.LibSSC[pos], r.ChipKey)
									if _, ok := next[sk]; !ok {
										next[sk] = node{devs}
										order = append(order, sk)
									}
								}
							}
							frontier = frontier[:0]
							for _, k := range order {
								frontier = append(frontier, next[k])
							}
							total += len(order)
						}
						c.AddStates(int64(total))
						if total > maxStates {
							maxStates = total
						}
						c.Distinct(fmt.Sprintf("bfs/%d/%d/%v/%v/%v/states=%d", alg, ssc, e0, e1, e2, total))
					}
				}
			}
		}
	}
	c.Extra("max_canonical_states_per_history_seen_by_worker0", maxStates)
}

func replay(c *vc.Ctx, raw json.RawMessage) string {
	var doc struct {
		Section string  `json:"section"`
		Case    caseRec `json:"case"`
	}
	if err := json.Unmarshal(raw, &doc); err != nil {
		return err.Error()
	}
	var devs []deviation
	for _, d := range doc.Case.Devs {
		devs = append(devs, deviation{d.Pos, d.Kind, vc.Unhex(d.Bytes)})
	}
	cf := cfg{refcrypto.Alg(doc.Case.Alg), doc.Case.SSC}
	r := runHistory(cf, doc.Case.Hist, devs, "main")
	key, what := judge(r, devs)
	if key != "" {
		c.Violation(doc.Section, key, what, doc.Case, nil)
	}
	s := ""
	for i := range r.Got {
		s += fmt.Sprintf("\n  exchange %d: genuine response %x; chip protected (data=%x,sw=%04x); caller got err=%v data=%x sw=%04x", i, r.Genuine[i], r.Expected[i].Data, r.Expected[i].Status, r.Got[i].Err, r.Got[i].Data, r.Got[i].Status)
	}
	return fmt.Sprintf("alg=%s ssc-class=%d deviations=%v%s\n  verdict: %s %s", cf.Alg, cf.SSC, doc.Case.Devs, s, key, what)
}
