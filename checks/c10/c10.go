// Package c10: protected commands are well-formed and counters stay in lock-step.
package c10

import (
	"bytes"
	"encoding/json"
	"fmt"
	"strings"

	"github.com/gmrtd/gmrtd/iso7816"

	"verif/internal/e2e"
	"verif/internal/perso"
	"verif/internal/refchip"
	"verif/internal/refcrypto"
	"verif/internal/refpki"
	"verif/internal/smdrv"
	"verif/internal/vc"
)

func init() {
	vc.Register(&vc.Check{ID: "C10", Level: "model_checking", Run: run, Replay: replay, QuickSec: 150, ThoroSec: 1200,
		Rule:   "(1) full product CLA{00,10} x INS{even,odd} x 18 data lengths (block, 255/256 and 65280 boundaries) x 7 Le values x 4 algorithms x 3 initial counters: each command sent through the real NfcSession.DoAPDU with SM installed; the independent strict chip-side parser must authenticate it (CLA 0C, DO order [85|87][97]8E, tag by INS parity, indicator 01, DO97 iff Le and encoding Le, MAC over SSC||padded header||DOs) and decrypt it to the intended INS/P1/P2/data/Le. (2) explicit-state exploration of ALL histories up to depth 3 (thorough 4) over 6 command shapes x 5 chip answer kinds (9000+data, 9000, protected 6A82/6982/6282) for 4 algorithms x 3 initial counters incl. wrap; invariant in every state: terminal counter == chip counter, the next exchange authenticates on both sides, and every response delivered earlier still holds the bytes it was delivered with. Every protected status word SW1 in 61..6F/90..9F x SW2 x {data, none} followed by one more exchange. states = history nodes visited, transitions = exchanges; distinct_nontrivial = distinct (alg, ssc, command shape, outcome) of part 1 + distinct canonical state keys of part 2",
		Assume: []string{"chip-side SM refcrypto.SM anchored to ICAO 9303-11 App. D.4", "the chip answers every authenticated command with a genuine protected response (faulty links are C03/C11)"}})
}

type cmd struct {
	CLA, INS byte
	DataLen  int
	Le       int
}

func pat(n int, salt byte) []byte {
	b := make([]byte, n)
	for i := range b {
		b[i] = byte(i)*11 + salt
	}
	return b
}

type ansKind int

var ansNames = []string{"9000+data", "9000", "6A82", "6982", "6282+data"}

// swAnswer encodes "protected status word sw, with 3 bytes of data or without" as an answer kind.
func swAnswer(sw uint16, withData bool) ansKind {
	k := 1<<17 | int(sw)<<1
	if withData {
		k |= 1
	}
	return ansKind(k)
}

func ansName(k ansKind) string {
	if int(k) < len(ansNames) {
		return ansNames[k]
	}
	return fmt.Sprintf("%04X%s", (int(k)>>1)&0xFFFF, map[bool]string{true: "+data", false: ""}[k&1 == 1])
}

func answer(k ansKind) ([]byte, uint16) {
	if k>>17 == 1 {
		if k&1 == 1 {
			return pat(3, 0x55), uint16(k >> 1)
		}
		return nil, uint16(k >> 1)
	}
	switch k {
	case 0:
		return pat(20, 0x33), 0x9000
	case 1:
		return nil, 0x9000
	case 2:
		return nil, 0x6A82
	case 3:
		return nil, 0x6982
	default:
		return pat(3, 0x44), 0x6282
	}
}

type step struct {
	C cmd
	A ansKind
}

type result struct {
	Key, What string
	LibSSC    []byte
	ChipSSC   []byte
	Outcome   string
}

// runSteps executes steps on fresh objects; checks every exchange.
func runSteps(alg refcrypto.Alg, sscClass int, steps []step) result {
	return runStepsSSC(alg, smdrv.SSCStart(alg, sscClass), steps)
}

func runStepsSSC(alg refcrypto.Alg, ssc []byte, steps []step) result {
	enc, mac := smdrv.Keys(alg, "c10")
	chip := refcrypto.NewSM(alg, enc, mac, ssc)
	lib, err := smdrv.NewLibSM(alg, enc, mac, ssc)
	if err != nil {
		return result{Key: "harness", What: err.Error()}
	}
	var res result
	fail := func(k, w string) {
		if res.Key == "" {
			res.Key, res.What = k, w
		}
	}
	w := &smdrv.Wire{}
	w.F = func(n int, wire []byte) []byte {
		st := steps[n]
		pc, err := smdrv.ChipUnwrap(chip, wire)
		if err != nil {
			cls := err.Error()
			if i := strings.Index(cls, ":"); i > 0 && strings.HasPrefix(cls, "not an ISO") {
				cls = "not an ISO 7816-4 command"
			}
			fail("cmd/rejected-by-chip/"+cls, fmt.Sprintf("step %d %+v: %v (wire head %x)", n, st.C, err, wire[:min(len(wire), 16)]))
			return []byte{0x69, 0x88}
		}
		want := pat(st.C.DataLen, byte(0x50+n))
		switch {
		case pc.INS != st.C.INS || pc.P1 != byte(n) || pc.P2 != 0x0C:
			fail("cmd/decrypts-differently/header", fmt.Sprintf("step %d %+v: chip recovered INS/P1/P2 %02x %02x %02x", n, st.C, pc.INS, pc.P1, pc.P2))
		case !(len(pc.Data) == len(want) && (len(want) == 0 || bytes.Equal(pc.Data, want))):
			fail("cmd/decrypts-differently/data", fmt.Sprintf("step %d %+v: chip recovered %d data bytes", n, st.C, len(pc.Data)))
		case pc.HasLe != (st.C.Le > 0):
			fail("cmd/do97-presence", fmt.Sprintf("step %d %+v: DO97 present=%v but Le requested=%v", n, st.C, pc.HasLe, st.C.Le > 0))
		case pc.HasLe && pc.Ne != st.C.Le:
			fail("cmd/do97-value", fmt.Sprintf("step %d %+v: DO97 %x encodes Ne=%d", n, st.C, pc.LeField, pc.Ne))
		}
		d, sw := answer(st.A)
		return chip.Wrap(d, sw, st.C.INS&1 == 1)
	}
	nfc := iso7816.NewNfcSession(w)
	nfc.SetSecureMessaging(lib)
	// responses delivered to the caller so far, each with a private copy taken on delivery: a later exchange must
	// not reach into data the caller already holds
	var delivered, deliveredCopy [][]byte
	for i, st := range steps {
		for j := range delivered {
			if !bytes.Equal(delivered[j], deliveredCopy[j]) {
				fail("delivered-response-changed-by-later-exchange", fmt.Sprintf("the response data delivered at step %d was changed by a later exchange (before step %d)", j, i))
			}
		}
		var data []byte
		if st.C.DataLen > 0 {
			data = pat(st.C.DataLen, byte(0x50+i))
		}
		var r *iso7816.RApdu
		var derr error
		pv, _ := vc.Guard(func() { r, derr = nfc.DoAPDU(iso7816.NewCApdu(st.C.CLA, st.C.INS, byte(i), 0x0C, data, st.C.Le), "x") })
		if pv != nil {
			fail("panic", fmt.Sprintf("step %d %+v panicked: %v", i, st.C, pv))
			break
		}
		if res.Key != "" {
			break
		}
		d, sw := answer(st.A)
		if derr != nil && len(w.Cmds) == i && st.C.DataLen > 65535-40 {
			// nothing was put on the wire: the protected form of this command (data + data-object overhead + MAC
			// object) does not fit the 65535-byte command data field; refusing it is the well-formed behaviour.
			// The history cannot continue after a refused command.
			res.Outcome = "refused-before-sending(protected data would exceed 65535)"
			res.LibSSC, res.ChipSSC = lib.SSC(), chip.SSCBytes()
			if !bytes.Equal(res.LibSSC, res.ChipSSC) {
				fail("ssc-diverged/refused-command-advanced-counter", fmt.Sprintf("step %d %+v was refused before sending, but the terminal counter is %x and the chip's %x", i, st.C, res.LibSSC, res.ChipSSC))
			}
			return res
		}
		if derr != nil {
			fail("genuine-response-rejected", fmt.Sprintf("step %d %+v answer %s: %v", i, st.C, ansName(st.A), derr))
			break
		}
		if r.Status != sw || !(len(r.Data) == len(d) && (len(d) == 0 || bytes.Equal(r.Data, d))) {
			fail("genuine-response-altered", fmt.Sprintf("step %d %+v answer %s: got %04x/%x", i, st.C, ansName(st.A), r.Status, r.Data))
			break
		}
		if !bytes.Equal(lib.SSC(), chip.SSCBytes()) {
			fail("ssc-diverged", fmt.Sprintf("after step %d (%+v, answer %s): terminal SSC %x, chip SSC %x", i, st.C, ansName(st.A), lib.SSC(), chip.SSCBytes()))
			break
		}
		delivered, deliveredCopy = append(delivered, r.Data), append(deliveredCopy, bytes.Clone(r.Data))
	}
	for j := range delivered {
		if !bytes.Equal(delivered[j], deliveredCopy[j]) {
			fail("delivered-response-changed-by-later-exchange", fmt.Sprintf("the response data delivered at step %d was changed by a later exchange", j))
		}
	}
	res.LibSSC, res.ChipSSC = lib.SSC(), chip.SSCBytes()
	if len(w.Cmds) != len(steps) && res.Key == "" {
		fail("exchange-count", fmt.Sprintf("%d commands on the wire for %d steps", len(w.Cmds), len(steps)))
	}
	return res
}

// runInterleaved drives two independent terminal/chip pairs alternately in the given order (0 = session A, 1 = B).
func runInterleaved(algA, algB refcrypto.Alg, order []int, steps []step) (string, string) {
	type sess struct {
		alg  refcrypto.Alg
		chip *refcrypto.SM
		lib  *iso7816.SecureMessaging
		nfc  *iso7816.NfcSession
		n    int
		fail string
	}
	mk := func(alg refcrypto.Alg, label string, sscClass int) *sess {
		enc, mac := smdrv.Keys(alg, label)
		ssc := smdrv.SSCStart(alg, sscClass)
		s := &sess{alg: alg, chip: refcrypto.NewSM(alg, enc, mac, ssc)}
		s.lib, _ = smdrv.NewLibSM(alg, enc, mac, ssc)
		w := &smdrv.Wire{}
		w.F = func(_ int, wire []byte) []byte {
			st := steps[s.n]
			pc, err := smdrv.ChipUnwrap(s.chip, wire)
			if err != nil {
				s.fail = "chip rejects command: " + err.Error()
				return []byte{0x69, 0x88}
			}
			want := pat(st.C.DataLen, byte(0x50+s.n))
			if !(len(pc.Data) == len(want) && (len(want) == 0 || bytes.Equal(pc.Data, want))) {
				s.fail = "chip decrypts other data than was sent"
			}
			d, sw := answer(st.A)
			return s.chip.Wrap(d, sw, st.C.INS&1 == 1)
		}
		s.nfc = iso7816.NewNfcSession(w)
		s.nfc.SetSecureMessaging(s.lib)
		return s
	}
	ss := []*sess{mk(algA, "il-A", 0), mk(algB, "il-B", 1)}
	for _, who := range order {
		s := ss[who]
		st := steps[s.n]
		var data []byte
		if st.C.DataLen > 0 {
			data = pat(st.C.DataLen, byte(0x50+s.n))
		}
		var r *iso7816.RApdu
		var err error
		if pv, _ := vc.Guard(func() { r, err = s.nfc.DoAPDU(iso7816.NewCApdu(0, st.C.INS, byte(s.n), 0x0C, data, st.C.Le), "x") }); pv != nil {
			return "interleaved/panic", fmt.Sprint(pv)
		}
		d, sw := answer(st.A)
		switch {
		case s.fail != "":
			return "interleaved/sessions-interfere", fmt.Sprintf("session %d exchange %d: %s", who, s.n, s.fail)
		case err != nil:
			return "interleaved/sessions-interfere", fmt.Sprintf("session %d exchange %d: genuine response rejected: %v", who, s.n, err)
		case r.Status != sw || !(len(r.Data) == len(d) && (len(d) == 0 || bytes.Equal(r.Data, d))):
			return "interleaved/sessions-interfere", fmt.Sprintf("session %d exchange %d: wrong result delivered", who, s.n)
		case !bytes.Equal(s.lib.SSC(), s.chip.SSCBytes()):
			return "interleaved/sessions-interfere", fmt.Sprintf("session %d exchange %d: counters differ", who, s.n)
		}
		s.n++
	}
	return "", ""
}

type caseRec struct {
	Alg   int    `json:"alg"`
	SSC   int    `json:"ssc"`
	Steps []step `json:"steps"`
}

func run(c *vc.Ctx) {
	if err := refcrypto.SelfTest(); err != nil {
		c.HarnessError("refcrypto self-test: %v", err)
		return
	}
	report := func(sec string, alg refcrypto.Alg, ssc int, steps []step) string {
		r := runSteps(alg, ssc, steps)
		c.AddTrans(int64(len(steps)))
		c.AddTraces(1)
		if r.Key != "" {
			st := append([]step{}, steps...)
			c.Violation(sec, r.Key, r.What, caseRec{int(alg), ssc, st}, func() bool { return runSteps(alg, ssc, st).Key != "" })
			return "VIOLATION"
		}
		if r.Outcome != "" {
			return r.Outcome
		}
		return "ok"
	}
	// part 1
	sec1 := "commands: full product"
	dls := []int{0, 1, 7, 8, 9, 15, 16, 17, 223, 224, 231, 239, 240, 255, 256, 257, 65000, 65264, 65500, 65503, 65504, 65511, 65512, 65519, 65520, 65534, 65535}
	les := []int{0, 1, 255, 256, 257, 65535, 65536}
	c.SecBound(sec1, fmt.Sprintf("CLA{00,10} x INS{A4,B1} x datalen %v x Le %v x 4 algs x SSC{0,mid,2^n-3}", dls, les))
	for _, alg := range smdrv.Algs {
		for _, ssc := range []int{0, 1, 3} {
			for _, cla := range []byte{0x00, 0x10} {
				for _, ins := range []byte{0xA4, 0xB1} {
					for _, dl := range dls {
						for _, le := range les {
							if !c.Mine() {
								continue
							}
							if c.Expired() {
								c.SecNotExhaustive(sec1, "deadline")
								goto part2
							}
							cm := cmd{cla, ins, dl, le}
							out := report(sec1, alg, ssc, []step{{cm, 0}})
							c.AddStates(1)
							c.Outcome(sec1, out)
							c.Distinct(fmt.Sprintf("p1/%d/%d/%+v/%s", alg, ssc, cm, out))
						}
					}
				}
			}
		}
	}
part2:
	sec2 := "histories: all sequences to depth bound"
	shapes := []cmd{{0, 0xA4, 0, 0}, {0, 0xB0, 0, 4}, {0, 0xA4, 2, 0}, {0, 0x88, 8, 256}, {0, 0xB1, 5, 256}, {0, 0x86, 300, 65536}}
	depth := 3
	if c.Thorough() {
		depth = 4
	}
	c.SecBound(sec2, fmt.Sprintf("every sequence of length 1..%d over %d command shapes x %d answer kinds, x 4 algs x SSC{0,mid,2^n-3(wraps within the history)}", depth, len(shapes), len(ansNames)))
	var alphabet []step
	for _, s := range shapes {
		for a := 0; a < len(ansNames); a++ {
			alphabet = append(alphabet, step{s, ansKind(a)})
		}
	}
	stateKeys := map[string]bool{}
	var rec func(alg refcrypto.Alg, ssc int, prefix []step)
	rec = func(alg refcrypto.Alg, ssc int, prefix []step) {
		if len(prefix) == depth {
			// leaf: run the whole history once (every prefix is checked inside runSteps step by step)
			if !c.Mine() {
				return
			}
			if c.Expired() {
				c.SecNotExhaustive(sec2, "deadline")
				return
			}
			r := runSteps(alg, ssc, prefix)
			c.AddStates(int64(len(prefix)))
			c.AddTrans(int64(len(prefix)))
			c.AddTraces(1)
			if r.Key != "" {
				st := append([]step{}, prefix...)
				c.Violation(sec2, r.Key, r.What, caseRec{int(alg), ssc, st}, func() bool { return runSteps(alg, ssc, st).Key != "" })
				c.Outcome(sec2, "VIOLATION")
			} else {
				c.Outcome(sec2, "lockstep")
			}
			diff := "0"
			if !bytes.Equal(r.LibSSC, r.ChipSSC) {
				diff = fmt.Sprintf("%x-%x", r.LibSSC, r.ChipSSC)
			}
			k := fmt.Sprintf("p2/ssc-diff=%s/alive=%v", diff, r.Key == "")
			if !stateKeys[k] {
				stateKeys[k] = true
				c.Distinct(k)
			}
			return
		}
		for _, a := range alphabet {
			rec(alg, ssc, append(prefix, a))
		}
	}
	for _, alg := range smdrv.Algs {
		for _, ssc := range []int{0, 1, 3} {
			rec(alg, ssc, nil)
		}
	}
	// part 2b: counter carry across every byte boundary (a counter implemented on a narrower integer would diverge here)
	sec2b := "counter carry at every byte boundary"
	c.SecBound(sec2b, "4 algs x every k in 1..blocksize-1: initial SSC = 2^(8k)-2 (low k bytes FF..FE, rest 00) and the same with the upper bytes 0x01; history of 3 exchanges incl. a protected error status")
	for _, alg := range smdrv.Algs {
		for k := 1; k < alg.Block(); k++ {
			for _, hi := range []byte{0x00, 0x01} {
				if !c.Mine() {
					continue
				}
				ssc := make([]byte, alg.Block())
				for i := range ssc {
					ssc[i] = hi
				}
				for i := 0; i < k; i++ {
					ssc[len(ssc)-1-i] = 0xFF
				}
				ssc[len(ssc)-1] = 0xFE
				steps := []step{{shapes[1], 0}, {shapes[2], 2}, {shapes[3], 0}}
				r := runStepsSSC(alg, ssc, steps)
				c.AddStates(3)
				c.AddTrans(3)
				c.AddTraces(1)
				if r.Key != "" {
					c.Violation(sec2b, r.Key+"/carry-at-byte-boundary", fmt.Sprintf("alg %s initial SSC %x: %s", alg, ssc, r.What), map[string]any{"alg": int(alg), "ssc": vc.Hex(ssc), "steps": steps}, nil)
					c.Outcome(sec2b, "VIOLATION")
				} else {
					c.Outcome(sec2b, "lockstep")
				}
				c.Distinct(fmt.Sprintf("carry/%d/%d/%d", alg, k, hi))
			}
		}
	}
	// part 2d: every status word a chip can protect (ISO 7816-4: SW1 = 61..6F, 90..9F), with and without data,
	// followed by one more exchange: the response is delivered as protected and the counters stay in lock-step
	// (a status that the terminal treats specially - e.g. as "secure messaging aborted" - must not do so when it
	// arrives authenticated)
	sec2d := "every protected status word, then one more exchange"
	c.SecBound(sec2d, "SW1 in {61..6F, 90..9F} x SW2 in 00..FF x {no data, 3 bytes of data} x 4 algs (quick: 3DES and AES-128): exchange with that protected status, then a read exchange")
	for ai, alg := range smdrv.Algs {
		if !c.Thorough() && ai >= 2 {
			continue
		}
		for sw1 := 0x61; sw1 <= 0x9F; sw1++ {
			if sw1 > 0x6F && sw1 < 0x90 {
				continue
			}
			if !c.Mine() {
				continue
			}
			for sw2 := 0; sw2 < 256; sw2++ {
				for _, wd := range []bool{false, true} {
					a := swAnswer(uint16(sw1<<8|sw2), wd)
					sh := shapes[1]
					if wd {
						sh = shapes[2]
					}
					steps := []step{{sh, a}, {shapes[2], 0}}
					r := runSteps(alg, 1, steps)
					c.AddStates(2)
					c.AddTrans(2)
					c.AddTraces(1)
					if r.Key != "" {
						c.Violation(sec2d, r.Key+"/protected-status-word", fmt.Sprintf("alg %s protected status %s: %s", alg, ansName(a), r.What), map[string]any{"alg": int(alg), "ssc": 1, "steps": steps}, nil)
						c.Outcome(sec2d, "VIOLATION")
					} else {
						c.Outcome(sec2d, "delivered+lockstep")
					}
				}
			}
			c.Distinct(fmt.Sprintf("sw1/%d/%02x", alg, sw1))
		}
	}
	// part 2c: two independent sessions used alternately in one process (state that leaks between sessions - a scratch
	// buffer or counter hoisted to package scope - shows only when sessions interleave)
	sec2c := "two independent sessions, all interleavings of their exchanges"
	c.SecBound(sec2c, "session pairs (alg A, alg B) in 4 x 4, each 3 exchanges; all 20 interleavings of 3+3 exchanges; both pairs must stay in lock-step and deliver exact results")
	{
		var orders [][]int
		var gen func(cur []int, a, b int)
		gen = func(cur []int, a, b int) {
			if a == 3 && b == 3 {
				orders = append(orders, append([]int{}, cur...))
				return
			}
			if a < 3 {
				gen(append(cur, 0), a+1, b)
			}
			if b < 3 {
				gen(append(cur, 1), a, b+1)
			}
		}
		gen(nil, 0, 0)
		for _, algA := range smdrv.Algs {
			for _, algB := range smdrv.Algs {
				for oi, ord := range orders {
					if !c.Mine() {
						continue
					}
					key, what := runInterleaved(algA, algB, ord, []step{{shapes[3], 0}, {shapes[2], 2}, {shapes[1], 0}})
					c.AddStates(6)
					c.AddTrans(6)
					c.AddTraces(1)
					if key != "" {
						c.Violation(sec2c, key, fmt.Sprintf("sessions %s/%s order %v: %s", algA, algB, ord, what), map[string]any{"algA": int(algA), "algB": int(algB), "order": ord}, nil)
						c.Outcome(sec2c, "VIOLATION")
					} else {
						c.Outcome(sec2c, "independent")
					}
					c.Distinct(fmt.Sprintf("il/%d/%d/%d", algA, algB, oi))
				}
			}
		}
	}
	// part 3: no command leaves unprotected once a session exists - complete reads of genuinely issued chips
	sec3 := "full reads: every command after session establishment is protected and authenticates"
	if err := refpki.EnsureKeys(); err != nil {
		c.HarnessError("refpki keys: %v", err)
		return
	}
	one := 1
	reads := []perso.Config{
		{BAC: true, DGs: []int{2, 7, 11, 12, 13, 16}},
		{BAC: true, DGs: []int{2}, AA: &perso.AASpec{RSABits: 2048, Trailer: "34CC"}, CA: []perso.CASpec{{Curve: "P-256", Cipher: 2, KeyID: &one}}},
		{BAC: true, DGs: []int{2}, CA: []perso.CASpec{{Curve: "brainpoolP384r1", Cipher: 1, NoInfo: true}}},
		{PACE: []refchip.PACEProto{{Mapping: 2, Cipher: 1, ParamID: 12}}, DGs: []int{2, 11}},
		{PACE: []refchip.PACEProto{{Mapping: 2, Cipher: 4, ParamID: 17}}, DGs: []int{2}, CA: []perso.CASpec{{Curve: "brainpoolP512r1", Cipher: 4}}},
		{PACE: []refchip.PACEProto{{Mapping: 6, Cipher: 3, ParamID: 16}}, DGs: []int{2, 12}, AA: &perso.AASpec{Curve: "P-384"}},
		{BAC: true, PACE: []refchip.PACEProto{{Mapping: 2, Cipher: 2, ParamID: 13}}, DGs: []int{2}, DGOverride: map[int][]byte{13: append([]byte{0x6D, 0x82, 0x13, 0x88}, make([]byte, 5000)...)}},
	}
	c.SecBound(sec3, fmt.Sprintf("%d chip configurations x maxLe {default, 65536, 100}", len(reads)))
	for i, cfg := range reads {
		for _, ml := range []int{0, 65536, 100} {
			if !c.Mine() {
				continue
			}
			p := perso.Build(cfg)
			r := e2e.Read(p, e2e.ReadOpts{MaxLe: ml})
			t := p.Chip.Truth
			started := false
			bad := ""
			for n, ex := range p.Chip.Log {
				if ex.Protected {
					started = true
				} else if started && ex.Note != "" {
					bad = fmt.Sprintf("exchange %d after session start: %s (wire %x...)", n, ex.Note, ex.Wire[:min(len(ex.Wire), 12)])
					break
				} else if started {
					bad = fmt.Sprintf("exchange %d after session start is an unprotected command %x...", n, ex.Wire[:min(len(ex.Wire), 12)])
					break
				}
			}
			c.AddStates(1)
			c.AddTrans(int64(len(p.Chip.Log)))
			c.AddTraces(1)
			rec := map[string]any{"config": i, "maxLe": ml}
			switch {
			case r.Panic != nil || r.Err != nil:
				c.Outcome(sec3, "read-failed")
				c.Violation(sec3, "fullread/failed", fmt.Sprintf("fault-free read %d (maxLe %d) failed: %v %v", i, ml, r.Panic, r.Err), rec, nil)
			case bad != "" || t.UnprotectedWhileSM != 0 || t.SMAborted != 0:
				c.Outcome(sec3, "VIOLATION")
				c.Violation(sec3, "fullread/unprotected-or-unauthentic-command-during-session", fmt.Sprintf("read %d (maxLe %d): %s; chip counted %d plain commands during SM, %d aborted sessions", i, ml, bad, t.UnprotectedWhileSM, t.SMAborted), rec, nil)
			default:
				c.Outcome(sec3, "all-protected")
			}
			c.Distinct(fmt.Sprintf("p3/%d/%d", i, ml))
		}
	}
	if c.Shard == 0 {
		c.Sample(map[string]any{"history": []step{alphabet[7], alphabet[13], alphabet[29]}, "alg": "AES-256", "ssc_class": "2^n-3"})
		var keys []string
		for k := range stateKeys {
			keys = append(keys, k)
		}
		c.Extra("canonical_state_keys_seen_by_worker0", keys)
	}
}

func replay(c *vc.Ctx, raw json.RawMessage) string {
	var doc struct {
		Section string  `json:"section"`
		Case    caseRec `json:"case"`
	}
	if err := json.Unmarshal(raw, &doc); err != nil {
		return err.Error()
	}
	r := runSteps(refcrypto.Alg(doc.Case.Alg), doc.Case.SSC, doc.Case.Steps)
	if r.Key != "" {
		c.Violation(doc.Section, r.Key, r.What, doc.Case, nil)
	}
	return fmt.Sprintf("alg=%s ssc-class=%d steps=%+v -> terminal SSC %x chip SSC %x; verdict: %s %s", refcrypto.Alg(doc.Case.Alg), doc.Case.SSC, doc.Case.Steps, r.LibSSC, r.ChipSSC, r.Key, r.What)
}
