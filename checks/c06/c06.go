// Package c06: chip authentication succeeds only with the holder of the certified key.
package c06

import (
	"bytes"
	"encoding/json"
	"fmt"
	"math/big"
	"strings"

	"verif/internal/e2e"
	"verif/internal/perso"
	"verif/internal/refchip"
	"verif/internal/refcrypto"
	"verif/internal/refpki"
	"verif/internal/vc"
)

func init() {
	vc.Register(&vc.Check{ID: "C06", Level: "model_checking", Run: run, Replay: replay, QuickSec: 170, ThoroSec: 1500,
		Rule:   "real Reader.ReadDocument (-> chipauth.DoChipAuth, pace CAM step) against the independent chip. Conforming side, all enumerated: 11 curves x {named, explicit parameters} x {3DES, AES-128/192/256} x key arrangement {one key without id, one key with id 1, one key with id 0, one key with id 256, two keys with ids 1/2 and the info naming the second, two keys with ids 2/258 (equal low octet), no ChipAuthenticationInfo (3DES inferred, MSE:Set KAT) with one key without id / one key with id / two keys with ids, ONE key advertised with several ChipAuthenticationInfo entries: every ordered selection of 2 or 3 of the 4 suites with and without key id (quick: 3 curves)} x access control {BAC, PACE-GM}; terminal ephemeral scalar alphabet {2, n-2, pattern, leading-zero shared x} on every curve. Oracle: success reported, the chip switched keys and authenticated a command under them, two further protected reads succeed with equal restarted counters. Impostor side (chip without the private key): answers 9000 to MSE/GA, then to the protected probe every strategy of {own (wrong-key) session response, SM-formatted 9000 with an empty / 1-byte / zero / absent MAC, bare 9000, bare 6A82, garbage, replay of the old session's last response, command echoed, response under the old session keys}; CAM impostor: chip-authentication data computed with a non-certified key => never reported successful. Histories through the chipauth API (BAC, then DoChipAuth; one reused ChipAuth object and a new one per run): every sequence of up to 3 (thorough 4) runs over {genuine chip, key-less clone replaying the recorded first response under the new keys, key-less clone under its own keys}. states = reads, transitions = exchanges; distinct_nontrivial = distinct (configuration, scalar/strategy, outcome)",
		Assume: []string{"refchip CA follows ICAO 9303-11 §6.2 / BSI TR-03110 (ECKA with FE2OS secret, key switch after the response to GENERAL AUTHENTICATE / MSE:Set KAT, counter restart)", "discrete log not searched"}})
}

type caCase struct {
	Curve    string `json:"curve"`
	Explicit bool   `json:"explicit"`
	Cipher   int    `json:"cipher"`
	Arr      string `json:"arrangement"` // noid | id | two | noinfo
	PACE     bool   `json:"pace"`
	Scalar   string `json:"scalar"` // "" default stream | 2 | n-2 | pt | lz
	Clone    string `json:"clone,omitempty"`
	CAMClone bool   `json:"cam_clone,omitempty"`
	CAMParam int    `json:"cam_param,omitempty"`
}

type result struct {
	Key, What, Outcome string
	Exchanges          int
}

func config(cc caCase) perso.Config {
	cfg := perso.Config{DGs: []int{2}}
	if cc.PACE {
		cfg.PACE = []refchip.PACEProto{{Mapping: 2, Cipher: 2, ParamID: 13}}
	} else {
		cfg.BAC = true
	}
	if cc.CAMParam != 0 {
		cfg.PACE = []refchip.PACEProto{{Mapping: 6, Cipher: 2 + cc.Cipher%3, ParamID: cc.CAMParam}}
		cfg.BAC = false
		cfg.CAMClone = cc.CAMClone
		return cfg
	}
	one, two := 1, 2
	clone := cc.Clone != ""
	switch cc.Arr {
	case "noid":
		cfg.CA = []perso.CASpec{{Curve: cc.Curve, Explicit: cc.Explicit, Cipher: cc.Cipher, Clone: clone}}
	case "id":
		cfg.CA = []perso.CASpec{{Curve: cc.Curve, Explicit: cc.Explicit, Cipher: cc.Cipher, KeyID: &one, Clone: clone}}
	case "two":
		// the first key has no info; the info names the second key
		cfg.CA = []perso.CASpec{{Curve: cc.Curve, Explicit: cc.Explicit, Cipher: cc.Cipher, KeyID: &one, NoInfo: true},
			{Curve: cc.Curve, Explicit: cc.Explicit, Cipher: cc.Cipher, KeyID: &two, Clone: clone}}
	case "id0":
		zero := 0
		cfg.CA = []perso.CASpec{{Curve: cc.Curve, Explicit: cc.Explicit, Cipher: cc.Cipher, KeyID: &zero, Clone: clone}}
	case "id256":
		big := 256
		cfg.CA = []perso.CASpec{{Curve: cc.Curve, Explicit: cc.Explicit, Cipher: cc.Cipher, KeyID: &big, Clone: clone}}
	case "two-ids-2-and-258":
		// key identifiers that collide in their low octet; the info names the second
		lo, hi := 2, 258
		cfg.CA = []perso.CASpec{{Curve: cc.Curve, Explicit: cc.Explicit, Cipher: cc.Cipher, KeyID: &lo, NoInfo: true},
			{Curve: cc.Curve, Explicit: cc.Explicit, Cipher: cc.Cipher, KeyID: &hi, Clone: clone}}
	case "noinfo-two":
		// no ChipAuthenticationInfo at all and TWO keys with identifiers: the suite is inferred (3DES) and the chip needs
		// the key reference because the key is ambiguous
		cfg.CA = []perso.CASpec{{Curve: cc.Curve, Explicit: cc.Explicit, Cipher: 1, KeyID: &one, NoInfo: true, Clone: clone},
			{Curve: cc.Curve, Explicit: cc.Explicit, Cipher: 1, KeyID: &two, NoInfo: true}}
	case "noinfo-id":
		cfg.CA = []perso.CASpec{{Curve: cc.Curve, Explicit: cc.Explicit, Cipher: 1, KeyID: &one, NoInfo: true, Clone: clone}}
	case "noinfo":
		cfg.CA = []perso.CASpec{{Curve: cc.Curve, Explicit: cc.Explicit, Cipher: 1, NoInfo: true, Clone: clone}}
	default:
		// "suites:<digits>[:id]" - ONE key advertised with several ChipAuthenticationInfo entries (one per digit, in
		// this order in DG14); the chip accepts each advertised suite and derives the session under the one named
		if strings.HasPrefix(cc.Arr, "suites:") {
			f := strings.Split(cc.Arr, ":")
			spec := perso.CASpec{Curve: cc.Curve, Explicit: cc.Explicit, Cipher: int(f[1][0] - '0'), Clone: clone}
			for _, d := range f[1][1:] {
				spec.AlsoCiphers = append(spec.AlsoCiphers, int(d-'0'))
			}
			if len(f) > 2 {
				spec.KeyID = &one
			}
			cfg.CA = []perso.CASpec{spec}
		}
	}
	return cfg
}

// suiteOrders: every ordered selection of 2 and of 3 distinct suites out of {1 3DES, 2 AES-128, 3 AES-192, 4 AES-256}
func suiteOrders() []string {
	var out []string
	for a := '1'; a <= '4'; a++ {
		for b := '1'; b <= '4'; b++ {
			if a == b {
				continue
			}
			out = append(out, string([]rune{a, b}))
			for d := '1'; d <= '4'; d++ {
				if d != a && d != b {
					out = append(out, string([]rune{a, b, d}))
				}
			}
		}
	}
	return out
}

func scalarFor(cc caCase, p *perso.Perso) []byte {
	if cc.Scalar == "" {
		return nil
	}
	curve := refpki.CurveByName(cc.Curve)
	nb := (curve.N.BitLen() + 7) / 8
	var k *big.Int
	switch cc.Scalar {
	case "":
		return nil
	case "2":
		k = big.NewInt(2)
	case "n-2":
		k = new(big.Int).Sub(curve.N, big.NewInt(2))
	case "pt":
		b := make([]byte, nb)
		for i := range b {
			b[i] = byte(0x4D + 0x1F*i)
		}
		k = new(big.Int).SetBytes(b)
		k.Mod(k, new(big.Int).Sub(curve.N, big.NewInt(3))).Add(k, big.NewInt(2))
	case "lz":
		// smallest t >= 3 such that x(t * PK_chip) has a leading zero octet
		key := p.Chip.CA[len(p.Chip.CA)-1].Key
		for t := int64(3); t < 6000; t++ {
			x, _ := curve.ScalarMult(key.X, key.Y, big.NewInt(t))
			if x != nil && x.FillBytes(make([]byte, curve.ByteLen()))[0] == 0 {
				k = big.NewInt(t)
				break
			}
		}
		if k == nil {
			return nil
		}
	}
	b := k.FillBytes(make([]byte, nb))
	b[1] ^= 0x42
	return b
}

func runOne(cc caCase) result {
	p := perso.Build(config(cc))
	chip := p.Chip
	tr := refchip.NewDetRand("terminal-c06")
	if s := scalarFor(cc, p); s != nil {
		tr.Queue = [][]byte{s}
	} else if cc.Scalar != "" {
		return result{Outcome: "lz-not-found"}
	}
	if cc.Clone != "" {
		var oldSessionLast []byte
		probeNext := false
		chip.Fault = func(n int, genuine []byte) []byte {
			ex := chip.Log[n]
			if probeNext {
				probeNext = false
				switch cc.Clone {
				case "own-wrong-key-session":
					// the clone's best effort: a well-formed success response under the keys IT derived
					if chip.Truth.CALastSM != nil {
						sm := chip.Truth.CALastSM.Clone()
						sm.SSC = big.NewInt(1)
						return sm.Wrap(nil, 0x9000, false)
					}
					return nil
				case "sm-format-empty-mac":
					return []byte{0x99, 0x02, 0x90, 0x00, 0x8E, 0x00, 0x90, 0x00}
				case "sm-format-1-byte-mac":
					return []byte{0x99, 0x02, 0x90, 0x00, 0x8E, 0x01, 0x00, 0x90, 0x00}
				case "sm-format-zero-mac":
					return []byte{0x99, 0x02, 0x90, 0x00, 0x8E, 0x08, 0, 0, 0, 0, 0, 0, 0, 0, 0x90, 0x00}
				case "sm-format-no-mac":
					return []byte{0x99, 0x02, 0x90, 0x00, 0x90, 0x00}
				case "bare-9000":
					return []byte{0x90, 0x00}
				case "bare-6A82":
					return []byte{0x6A, 0x82}
				case "garbage":
					return append(bytes.Repeat([]byte{0xA5}, 24), 0x90, 0x00)
				case "replay-old-session":
					return oldSessionLast
				case "echo-command":
					return append(append([]byte{}, ex.Wire...), 0x90, 0x00)
				case "conforming-refusal":
					return nil
				}
				return nil
			}
			if ex.Protected && ex.Plain != nil && (ex.Plain.INS == 0x86 || (ex.Plain.INS == 0x22 && ex.Plain.P2 == 0xA6)) && ex.SW == 0x9000 {
				probeNext = true
				oldSessionLast = append([]byte{}, genuine...)
			}
			return nil
		}
	}
	r := e2e.Read(p, e2e.ReadOpts{TermRand: tr})
	res := result{Exchanges: len(chip.Log)}
	if r.Panic != nil {
		res.Key, res.What, res.Outcome = "panic", fmt.Sprintf("read panicked: %v", r.Panic), "panic"
		return res
	}
	if r.Doc == nil {
		res.Key, res.What, res.Outcome = "harness/no-document", fmt.Sprint(r.Err), "no-doc"
		return res
	}
	s := r.Doc.Session
	if cc.CAMParam != 0 {
		camOK := s.PaceCamResult != nil && s.PaceCamResult.Success
		if cc.CAMClone {
			if camOK {
				res.Key, res.What, res.Outcome = "impostor/cam-accepted", "PACE-CAM reported successful although the chip used a key that is not the one certified in CardSecurity", "accepted"
			} else {
				res.Outcome = "cam-refused"
			}
			return res
		}
		if !camOK || r.Err != nil {
			res.Key, res.What, res.Outcome = "genuine/cam-failed", fmt.Sprintf("PACE-CAM with a conforming chip not successful: err=%v paceErr=%v", r.Err, s.PaceErr), "failed"
		} else {
			res.Outcome = "cam-success"
		}
		return res
	}
	caOK := s.ChipAuthResult != nil && s.ChipAuthResult.Success
	if cc.Clone != "" {
		if caOK {
			res.Key, res.What, res.Outcome = "impostor/ca-accepted:"+cc.Clone, fmt.Sprintf("chip authentication reported successful for a chip without the private key (strategy %s)", cc.Clone), "accepted"
		} else if sum := r.Doc.Summary(); fmt.Sprint(sum.ChipAuthenticity) == "Chip Authentication" {
			res.Key, res.What, res.Outcome = "impostor/summary-names-ca:"+cc.Clone, "summary names chip authentication for an impostor", "accepted"
		} else {
			res.Outcome = "refused"
		}
		return res
	}
	if r.Err != nil || !caOK {
		res.Outcome = "failed"
		res.Key = "genuine/ca-failed"
		if k := chip.Truth.CALastK; len(k) > 0 && k[0] == 0 {
			res.Key = "genuine/ca-failed/shared-secret-with-leading-zero-octet"
		}
		res.What = fmt.Sprintf("chip authentication against a conforming chip failed: readErr=%v caErr=%v (chip installed keys=%v)", r.Err, s.ChipAuthErr, chip.Truth.CAKeysInstalled)
		return res
	}
	if !chip.Truth.CAKeysInstalled || !chip.Truth.CACompleted {
		res.Key, res.What, res.Outcome = "genuine/success-without-key-switch", fmt.Sprintf("success reported but chip truth: keys installed=%v command authenticated under new keys=%v", chip.Truth.CAKeysInstalled, chip.Truth.CACompleted), "inconsistent"
		return res
	}
	// traffic continues under the new keys with a restarted counter
	for i := 0; i < 2; i++ {
		data, err := r.Nfc.ReadFile(0x0101)
		if err != nil || !bytes.Equal(data, p.Files[1]) {
			res.Key, res.What, res.Outcome = "genuine/post-ca-traffic-fails", fmt.Sprintf("protected read %d after chip authentication fails: %v", i+1, err), "post-ca-failure"
			return res
		}
	}
	if chip.SM == nil || r.Nfc.SM() == nil || !bytes.Equal(r.Nfc.SM().SSC(), chip.SM.SSCBytes()) {
		res.Key, res.What, res.Outcome = "genuine/ssc-differ", "counters differ after chip authentication", "ssc"
		return res
	}
	if chip.SM.SSC.Cmp(big.NewInt(64)) > 0 {
		res.Key, res.What, res.Outcome = "genuine/counter-not-restarted", fmt.Sprintf("counter after CA + 2 reads is %s", chip.SM.SSC), "ssc"
		return res
	}
	res.Outcome = "success+2-reads-under-new-keys"
	return res
}

func run(c *vc.Ctx) {
	if err := refcrypto.SelfTest(); err != nil {
		c.HarnessError("refcrypto self-test: %v", err)
		return
	}
	if err := refpki.EnsureKeys(); err != nil {
		c.HarnessError("refpki keys: %v", err)
		return
	}
	do := func(sec string, cc caCase) {
		r := runOne(cc)
		c.AddStates(1)
		c.AddTrans(int64(r.Exchanges))
		c.AddTraces(1)
		c.Outcome(sec, r.Outcome)
		c.Distinct(fmt.Sprintf("%+v/%s", cc, r.Outcome))
		if r.Key != "" {
			c.Violation(sec, r.Key, r.What, cc, func() bool { return runOne(cc).Key != "" })
		}
	}
	sec1 := "conforming chip: configuration lattice"
	c.SecBound(sec1, "11 curves x {named,explicit} x 4 ciphers x {noid,id,id0,two,id256,two-ids-2-and-258} + noinfo(3DES) x 3 + 36 ordered suite selections x {noid,id} on one key (quick: 3 curves, named, BAC) x {BAC,PACE-GM}")
	for _, curve := range refpki.CurveNames {
		for _, ex := range []bool{false, true} {
			for _, pace := range []bool{false, true} {
				for cipher := 1; cipher <= 4; cipher++ {
					for _, arr := range []string{"noid", "id", "id0", "two", "id256", "two-ids-2-and-258"} {
						if !c.Mine() {
							continue
						}
						if c.Expired() {
							c.SecNotExhaustive(sec1, "deadline")
							goto scal
						}
						do(sec1, caCase{Curve: curve, Explicit: ex, Cipher: cipher, Arr: arr, PACE: pace})
					}
				}
				// one key, several advertised suites: every ordered selection of 2 or 3 of the 4 suites
				if c.Thorough() || (!ex && !pace && (curve == "P-256" || curve == "brainpoolP384r1" || curve == "P-521")) {
					for _, order := range suiteOrders() {
						for _, id := range []string{"", ":id"} {
							if !c.Mine() {
								continue
							}
							do(sec1, caCase{Curve: curve, Explicit: ex, Cipher: int(order[0] - '0'), Arr: "suites:" + order + id, PACE: pace})
						}
					}
				}
				if c.Mine() {
					do(sec1, caCase{Curve: curve, Explicit: ex, Cipher: 1, Arr: "noinfo", PACE: pace})
					do(sec1, caCase{Curve: curve, Explicit: ex, Cipher: 1, Arr: "noinfo-id", PACE: pace})
					do(sec1, caCase{Curve: curve, Explicit: ex, Cipher: 1, Arr: "noinfo-two", PACE: pace})
				}
			}
		}
	}
scal:
	sec2 := "terminal ephemeral scalar alphabet"
	c.SecBound(sec2, "11 curves x {3DES noinfo, AES-128 id, AES-256 noid} x scalars {2, n-2, pattern, leading-zero shared x}")
	for _, curve := range refpki.CurveNames {
		for _, v := range []struct {
			cipher int
			arr    string
		}{{1, "noinfo"}, {2, "id"}, {4, "noid"}} {
			for _, sc := range []string{"2", "n-2", "pt", "lz"} {
				if !c.Mine() {
					continue
				}
				if c.Expired() {
					c.SecNotExhaustive(sec2, "deadline")
					goto imp
				}
				do(sec2, caCase{Curve: curve, Cipher: v.cipher, Arr: v.arr, Scalar: sc})
			}
		}
	}
imp:
	sec3 := "impostor chip (no private key)"
	strategies := []string{"conforming-refusal", "own-wrong-key-session", "sm-format-empty-mac", "sm-format-1-byte-mac", "sm-format-zero-mac", "sm-format-no-mac", "bare-9000", "bare-6A82", "garbage", "replay-old-session", "echo-command"}
	curves := []string{"P-256", "brainpoolP256r1", "P-192", "brainpoolP512r1"}
	if c.Thorough() {
		curves = refpki.CurveNames
	}
	c.SecBound(sec3, fmt.Sprintf("%d curves x {3DES noinfo (MSE:Set KAT), AES-128 id, 3DES noid, AES-256 two} x {BAC,PACE} x %d answer strategies; CAM impostor on parameter ids 12,13,16 x 3 ciphers", len(curves), len(strategies)))
	for _, curve := range curves {
		for _, v := range []struct {
			cipher int
			arr    string
		}{{1, "noinfo"}, {2, "id"}, {1, "noid"}, {4, "two"}} {
			for _, pace := range []bool{false, true} {
				for _, st := range strategies {
					if !c.Mine() {
						continue
					}
					if c.Expired() {
						c.SecNotExhaustive(sec3, "deadline")
						return
					}
					do(sec3, caCase{Curve: curve, Cipher: v.cipher, Arr: v.arr, PACE: pace, Clone: st})
				}
			}
		}
	}
	for _, pid := range []int{12, 13, 16} {
		for cipher := 0; cipher < 3; cipher++ {
			for _, cl := range []bool{false, true} {
				if !c.Mine() {
					continue
				}
				do(sec3, caCase{CAMParam: pid, Cipher: cipher, CAMClone: cl})
			}
		}
	}
	if c.Shard == 0 {
		c.Sample(caCase{Curve: "brainpoolP384r1", Explicit: true, Cipher: 3, Arr: "two", PACE: true})
		c.Sample(caCase{Curve: "P-256", Cipher: 1, Arr: "noinfo", Clone: "own-wrong-key-session"})
	}
	// (4) histories of runs through the chipauth API on one session
	sec4 := "histories of runs (chipauth API)"
	depth := 3
	if c.Thorough() {
		depth = 4
	}
	seqs := histSeqs(depth)
	hcfg := []histCase{{Curve: "P-256", Cipher: 2, Arr: "id"}, {Curve: "brainpoolP256r1", Cipher: 1, Arr: "noinfo"}, {Curve: "brainpoolP384r1", Cipher: 4, Arr: "two"}}
	c.SecBound(sec4, fmt.Sprintf("%d configurations x all %d histories of up to %d runs (BAC, then DoChipAuth) over {genuine chip, key-less clone replaying the recorded first response under the new keys of the last genuine run, key-less clone answering under its own keys} x {one ChipAuth object for all runs, a new one per run}; terminal randoms never repeat", len(hcfg), len(seqs), depth))
	for _, h0 := range hcfg {
		for _, sq := range seqs {
			for _, same := range []bool{true, false} {
				if !c.Mine() {
					continue
				}
				hc := h0
				hc.Seq, hc.SameObject = sq, same
				r := runHist(hc)
				c.AddStates(int64(len(sq)))
				c.AddTrans(int64(r.Exchanges))
				c.AddTraces(1)
				c.Outcome(sec4, r.Outcome)
				c.Distinct(fmt.Sprintf("hist/%s/%d/%s/%v/%s", hc.Curve, hc.Cipher, sq, same, r.Outcome))
				if r.Key == "harness" {
					c.HarnessError("history %+v: %s", hc, r.What)
					continue
				}
				if r.Key != "" {
					c.Violation(sec4, r.Key, r.What, hc, func() bool { return runHist(hc).Key != "" })
				}
			}
		}
	}
}

func replay(c *vc.Ctx, raw json.RawMessage) string {
	var hd struct {
		Section string   `json:"section"`
		Case    histCase `json:"case"`
	}
	if json.Unmarshal(raw, &hd) == nil && hd.Case.Seq != "" {
		r := runHist(hd.Case)
		if r.Key != "" {
			c.Violation(hd.Section, r.Key, r.What, hd.Case, nil)
		}
		return fmt.Sprintf("history %+v -> %s; verdict: %s %s", hd.Case, r.Outcome, r.Key, r.What)
	}
	var doc struct {
		Section string `json:"section"`
		Case    caCase `json:"case"`
	}
	if err := json.Unmarshal(raw, &doc); err != nil {
		return err.Error()
	}
	refpki.EnsureKeys()
	r := runOne(doc.Case)
	if r.Key != "" {
		c.Violation(doc.Section, r.Key, r.What, doc.Case, nil)
	}
	return fmt.Sprintf("case %+v -> outcome %s after %d exchanges; verdict: %s %s", doc.Case, r.Outcome, r.Exchanges, r.Key, r.What)
}
