package c06

import (
	"bytes"
	"crypto/rand"
	"fmt"
	"math/big"

	"github.com/gmrtd/gmrtd/bac"
	"github.com/gmrtd/gmrtd/chipauth"
	"github.com/gmrtd/gmrtd/document"
	"github.com/gmrtd/gmrtd/iso7816"
	"github.com/gmrtd/gmrtd/password"

	"verif/internal/perso"
	"verif/internal/refchip"
	"verif/internal/vc"
)

// histCase is a HISTORY of chip-authentication runs driven through the chipauth API directly (BAC first, then
// DoChipAuth), the card being re-presented between runs. Seq has one letter per run:
//
//	G  the genuine chip
//	R  a clone that knows the MRZ (so it completes BAC) but NOT the chip-authentication private key, and that
//	   recorded the last G run: it acknowledges MSE / GENERAL AUTHENTICATE and answers the first command under
//	   the new keys with the response the genuine chip gave at that point of the recorded run
//	K  the same clone answering with a response under the keys it derived itself
//
// The terminal's ephemeral key never repeats (the random source does not), so the recorded response belongs to
// other session keys: R and K must never be reported successful, also when ONE ChipAuth object serves all runs.
type histCase struct {
	Curve      string `json:"curve"`
	Cipher     int    `json:"cipher"`
	Arr        string `json:"arrangement"`
	Seq        string `json:"seq"`
	SameObject bool   `json:"same_chipauth_object"`
}

type swapChip struct{ cur iso7816.Transceiver }

func (s *swapChip) Transceive(cla, ins, p1, p2 int, data []byte, le int, enc []byte) []byte {
	return s.cur.Transceive(cla, ins, p1, p2, data, le, enc)
}

func histSeqs(depth int) []string {
	var out []string
	var rec func(s string)
	rec = func(s string) {
		if len(s) > 0 {
			out = append(out, s)
		}
		if len(s) == depth {
			return
		}
		for _, l := range "GRK" {
			if l == 'R' && !bytes.ContainsRune([]byte(s), 'G') {
				continue
			}
			rec(s + string(l))
		}
	}
	rec("")
	return out
}

func isKeyAgreementDone(ex *refchip.Exchange) bool {
	return ex.Protected && ex.Plain != nil && (ex.Plain.INS == 0x86 || (ex.Plain.INS == 0x22 && ex.Plain.P2 == 0xA6)) && ex.SW == 0x9000
}

func runHist(hc histCase) result {
	term := refchip.NewDetRand("terminal-ca-history")
	old := rand.Reader
	rand.Reader = term
	defer func() { rand.Reader = old }()

	base := caCase{Curve: hc.Curve, Cipher: hc.Cipher, Arr: hc.Arr}
	genuine := perso.Build(config(base))
	doc := &document.Document{}
	if err := doc.NewDG(14, genuine.Files[14]); err != nil {
		return result{Key: "harness", What: "NewDG14: " + err.Error()}
	}
	pass, err := password.NewPasswordMrz(genuine.Zone)
	if err != nil {
		return result{Key: "harness", What: "password: " + err.Error()}
	}
	sw := &swapChip{}
	nfc := iso7816.NewNfcSession(sw)
	var shared *chipauth.ChipAuth
	if hc.SameObject {
		shared = chipauth.NewChipAuth(nfc, doc)
	}
	var recorded []byte
	var res result
	for i, l := range hc.Seq {
		nfc.SetSecureMessaging(nil)
		cc := base
		if l != 'G' {
			cc.Clone = "history"
		}
		p := perso.Build(config(cc))
		chip := p.Chip
		chip.Rand = refchip.NewDetRand(fmt.Sprintf("chip-ca-run-%d", i))
		if !bytes.Equal(p.Files[14], genuine.Files[14]) {
			return result{Key: "harness", What: "the clone's DG14 differs from the genuine one"}
		}
		probe := -1
		rec := recorded
		kind := l
		chip.Fault = func(n int, gen []byte) []byte {
			if n == probe {
				switch kind {
				case 'R':
					return bytes.Clone(rec)
				case 'K':
					if chip.Truth.CALastSM != nil {
						sm := chip.Truth.CALastSM.Clone()
						sm.SSC = big.NewInt(1)
						return sm.Wrap(nil, 0x9000, false)
					}
				}
				return nil
			}
			if isKeyAgreementDone(chip.Log[n]) {
				probe = n + 1
			}
			return nil
		}
		sw.cur = chip
		if _, err := nfc.SelectAid(refchip.AIDLDS1); err != nil {
			return result{Key: "harness", What: "select AID: " + err.Error()}
		}
		br, berr := bac.NewBAC(nfc, doc, pass).DoBAC()
		if berr != nil || br == nil || !br.Success {
			return result{Key: "harness", What: fmt.Sprintf("BAC failed in run %d: %v", i+1, berr)}
		}
		ca := shared
		if ca == nil {
			ca = chipauth.NewChipAuth(nfc, doc)
		}
		var cr *document.ChipAuthResult
		var cerr error
		pv, _ := vc.Guard(func() { cr, cerr = ca.DoChipAuth() })
		res.Exchanges += len(chip.Log)
		if pv != nil {
			return result{Key: "panic", What: fmt.Sprintf("DoChipAuth panicked in run %d of %s: %v", i+1, hc.Seq, pv), Outcome: "panic", Exchanges: res.Exchanges}
		}
		ok := cr != nil && cr.Success
		if l == 'G' {
			if !ok || cerr != nil || !chip.Truth.CACompleted {
				res.Key, res.What, res.Outcome = "history/genuine-run-failed", fmt.Sprintf("run %d (genuine chip) of history %s (same object=%v) failed: success=%v err=%v chip-completed=%v", i+1, hc.Seq, hc.SameObject, ok, cerr, chip.Truth.CACompleted), "failed"
				return res
			}
			if probe < 0 || probe >= len(chip.Log) {
				return result{Key: "harness", What: "no exchange under the new keys to record"}
			}
			recorded = bytes.Clone(chip.Log[probe].WireResp)
			data, rerr := nfc.ReadFile(0x0101)
			if rerr != nil || !bytes.Equal(data, p.Files[1]) {
				res.Key, res.What, res.Outcome = "history/genuine-run-session-unusable", fmt.Sprintf("run %d of history %s: protected read after chip authentication fails: %v", i+1, hc.Seq, rerr), "post-ca-failure"
				return res
			}
			res.Outcome += "G:ok "
			continue
		}
		name := map[rune]string{'R': "replay-of-recorded-run", 'K': "own-wrong-key-session"}[l]
		if ok {
			res.Key, res.What, res.Outcome = "history/impostor-accepted:"+name, fmt.Sprintf("run %d of history %s (same ChipAuth object=%v): chip authentication reported successful for a chip without the private key (%s)", i+1, hc.Seq, hc.SameObject, name), "accepted"
			return res
		}
		res.Outcome += string(l) + ":refused "
	}
	return res
}
