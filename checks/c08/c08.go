// Package c08: an end-to-end read returns the chip's files and correct step outcomes.
package c08

import (
	"bytes"
	"encoding/json"
	"fmt"
	"verif/internal/reflds"

	"verif/internal/e2e"
	"verif/internal/perso"
	"verif/internal/refchip"
	"verif/internal/refcrypto"
	"verif/internal/refpki"
	"verif/internal/vc"
)

func init() {
	vc.Register(&vc.Check{ID: "C08", Level: "exploration", Run: run, Replay: replay, QuickSec: 170, ThoroSec: 1800,
		Rule:   "real Reader.ReadDocument against the independent, genuinely issued chip over a 13-dimensional configuration lattice (access control, password, PACE curve, suite, optional DG subset, CA arrangement, AA key type, large-file size, maxLe, chip Le cap, extended length, issuer trusted, SkipImages). Enumerated completely: every TWO-FACTOR slice (all value pairs of every two dimensions, the rest at the baseline), plus the complete {DG subset x CA x AA x SkipImages} and {file size x maxLe x cap x extended} slices (thorough adds {access x curve x suite x password} and every THREE-factor slice over {first, baseline, middle, last} values). The chip honours Ne: an authentication answer longer than the command's expected length is refused with 6Cxx, never sent in full. Oracle from the chip's own truth: every returned file byte-identical to the chip's; inside the region the transport supports the read succeeds, every supported DG listed in the SOD is present (DG2/DG7 excepted with SkipImages), BAC/PACE reported as the chip completed them, the strongest chip-authentication mechanism by the library's precedence AA > PACE-CAM > CA is reported successful, PA success <=> issuer in the trust store. distinct_nontrivial = distinct configuration vectors read",
		Assume: []string{"an active-authentication signature of more than 256 bytes (RSA-4096) has to succeed only with extended length, maxLe >= 512 and a chip without Le cap (9303-11: such keys need extended length; a cap makes the read fallback lower the session's per-read size to 256 or less)", "required region: maxLe >= 128, extended length supported or maxLe <= 256, chip Le cap 0 or >= 128 (a rung of the 256/192/128 ladder), every chunk of every file starts at an offset <= 32767 (the 15-bit READ BINARY offset) and a file needs <= 990 chunks; outside it only 'exact or error' is demanded", "CA after a successful AA / PACE-CAM is skipped by design and not demanded"}})
}

type dim struct {
	Name string
	N    int
	Base int
}

var dims = []dim{
	{"access", 5, 1},   // 0 BAC only, 1 PACE-GM + BAC, 2 PACE-GM only, 3 PACE-CAM, 4 two PACE protocols on different parameter ids (CAM first, GM-3DES@12 second)
	{"password", 2, 0}, // 0 MRZ, 1 CAN
	{"curve", 11, 5},   // parameter id 8+v
	{"suite", 4, 1},    // cipher 1+v
	{"dgs", 64, 9},     // subset of {2,7,11,12,13,16}
	{"ca", 12, 0},      // 0 none, 1 P-256/3DES/noinfo, 2 bp256/AES128/id, 3 P-384/AES256/two keys, 4 bp512 explicit/AES192, 5..11 the other seven curves (P-521, P-224, P-192, bp192, bp224, bp320, bp384) with rotating suites and arrangements
	{"aa", 7, 0},       // 0 none, 1 RSA1024/BC, 2 RSA2048/34CC, 3 RSA4096/35CC, 4 EC P-256, 5 EC bp384 DER, 6 EC P-521
	{"size", 15, 0},    // DG13 total size class
	{"maxle", 16, 10},
	{"cap", 7, 0},
	{"extended", 2, 1},
	{"issuer", 2, 0}, // 0 trusted, 1 untrusted
	{"skipimages", 2, 0},
}

var sizes = []int{0, 5, 127, 128, 129, 255, 256, 257, 259, 260, 261, 4000, 32767, 32769, 40000}
var maxLes = []int{4, 5, 127, 128, 192, 223, 224, 255, 256, 257, 0 /* library default */, 1000, 4096, 32767, 65535, 65536}
var caps = []int{0, 100, 128, 192, 255, 256, 1000}
var dgPool = []int{2, 7, 11, 12, 13, 16}

type vec [13]int

func baseline() vec {
	var v vec
	for i, d := range dims {
		v[i] = d.Base
	}
	return v
}

func valid(v vec) bool {
	if v[1] == 1 && v[0] == 0 {
		return false // CAN cannot open a BAC-only chip
	}
	if (v[0] == 3 || v[0] == 4) && v[3] == 0 {
		return false // CAM has no 3DES suite
	}
	return true
}

type built struct {
	P    *perso.Perso
	Opts e2e.ReadOpts
	V    vec
}

func dg13(total int) []byte {
	// 6D L content, total size incl. header
	h := 2
	if total > 129 {
		h = 3
	}
	if total > 258 {
		h = 4
	}
	n := total - h
	if n < 0 {
		n = 0
	}
	c := make([]byte, n)
	for i := range c {
		c[i] = byte(i)*29 ^ byte(i>>8)*7 ^ 0x33
	}
	out := []byte{0x6D}
	switch {
	case n < 0x80:
		out = append(out, byte(n))
	case n < 0x100:
		out = append(out, 0x81, byte(n))
	default:
		out = append(out, 0x82, byte(n>>8), byte(n))
	}
	return append(out, c...)
}

func build(v vec) built {
	cfg := perso.Config{PACEByCAN: true}
	pid, cipher := 8+v[2], 1+v[3]
	switch v[0] {
	case 0:
		cfg.BAC = true
	case 1:
		cfg.BAC = true
		cfg.PACE = []refchip.PACEProto{{Mapping: 2, Cipher: cipher, ParamID: pid}}
	case 2:
		cfg.PACE = []refchip.PACEProto{{Mapping: 2, Cipher: cipher, ParamID: pid}}
	case 3:
		cfg.PACE = []refchip.PACEProto{{Mapping: 6, Cipher: cipher, ParamID: pid}}
	case 4:
		second := refchip.PACEProto{Mapping: 2, Cipher: 1, ParamID: 12}
		if pid == 12 {
			second.ParamID = 13
		}
		cfg.PACE = []refchip.PACEProto{{Mapping: 6, Cipher: cipher, ParamID: pid}, second}
	}
	for i, d := range dgPool {
		if v[4]&(1<<i) != 0 {
			cfg.DGs = append(cfg.DGs, d)
		}
	}
	one, two := 1, 2
	switch v[5] {
	case 1:
		cfg.CA = []perso.CASpec{{Curve: "P-256", Cipher: 1, NoInfo: true}}
	case 2:
		cfg.CA = []perso.CASpec{{Curve: "brainpoolP256r1", Cipher: 2, KeyID: &one}}
	case 3:
		cfg.CA = []perso.CASpec{{Curve: "P-384", Cipher: 4, KeyID: &one, NoInfo: true}, {Curve: "P-384", Cipher: 4, KeyID: &two}}
	case 4:
		cfg.CA = []perso.CASpec{{Curve: "brainpoolP512r1", Explicit: true, Cipher: 3}}
	case 5:
		cfg.CA = []perso.CASpec{{Curve: "P-521", Cipher: 4, KeyID: &one}}
	case 6:
		cfg.CA = []perso.CASpec{{Curve: "P-224", Cipher: 2}}
	case 7:
		cfg.CA = []perso.CASpec{{Curve: "P-192", Cipher: 1}}
	case 8:
		cfg.CA = []perso.CASpec{{Curve: "brainpoolP192r1", Cipher: 3, KeyID: &two}}
	case 9:
		cfg.CA = []perso.CASpec{{Curve: "brainpoolP224r1", Explicit: true, Cipher: 2}}
	case 10:
		cfg.CA = []perso.CASpec{{Curve: "brainpoolP320r1", Cipher: 4, AlsoCiphers: []int{1}}}
	case 11:
		cfg.CA = []perso.CASpec{{Curve: "brainpoolP384r1", Cipher: 1, KeyID: &one, AlsoCiphers: []int{3, 2}}}
	}
	switch v[6] {
	case 1:
		cfg.AA = &perso.AASpec{RSABits: 1024, Trailer: "BC"}
	case 2:
		cfg.AA = &perso.AASpec{RSABits: 2048, Trailer: "34CC"}
	case 3:
		cfg.AA = &perso.AASpec{RSABits: 4096, Trailer: "35CC"}
	case 4:
		cfg.AA = &perso.AASpec{Curve: "P-256"}
	case 5:
		cfg.AA = &perso.AASpec{Curve: "brainpoolP384r1", DER: true}
	case 6:
		cfg.AA = &perso.AASpec{Curve: "P-521", Explicit: true}
	}
	if sz := sizes[v[7]]; sz > 0 {
		cfg.DGOverride = map[int][]byte{13: dg13(sz)}
	}
	cfg.Untrusted = v[11] == 1
	p := perso.Build(cfg)
	p.Chip.LeCap = caps[v[9]]
	p.Chip.ExtendedLen = v[10] == 1
	p.Chip.Lenient2E = false
	p.Chip.StrictNe = true // a conforming chip never returns more than Ne bytes
	return built{P: p, V: v, Opts: e2e.ReadOpts{MaxLe: maxLes[v[8]], UseCAN: v[1] == 1, SkipImages: v[12] == 1}}
}

// required reports whether the statement demands success for this configuration.
func required(v vec, p *perso.Perso) bool {
	ml := maxLes[v[8]]
	if ml == 0 {
		ml = 256
	}
	if ml < 128 {
		return false
	}
	if v[10] == 0 && ml > 256 {
		return false
	}
	if c := caps[v[9]]; c != 0 && c < 128 {
		return false
	}
	if c := caps[v[9]]; c != 0 && c < ml && ml <= 128 {
		return false
	}
	// effective read size after the library's fallback ladder
	eff := ml
	if c := caps[v[9]]; c != 0 && c < ml {
		eff = 0
		for _, rung := range []int{256, 192, 128} {
			if rung < ml && rung <= c && eff == 0 {
				eff = rung
			}
		}
		if eff == 0 {
			return false
		}
	}
	for _, f := range p.Files {
		// READ BINARY carries a 15-bit START offset: a file is readable when every chunk starts at or below 32767
		// (the bytes returned may run past it) and needs at most the library's 1000 chunks
		if len(f) > 4 {
			lastStart := 4 + ((len(f)-5)/eff)*eff
			if lastStart > 32767 || (len(f)+eff-1)/eff > 990 {
				return false
			}
		}
	}
	return true
}

type result struct {
	Key, What, Outcome string
	Exchanges          int
}

func judge(b built) result {
	p, v := b.P, b.V
	r := e2e.Read(p, b.Opts)
	res := result{Exchanges: len(p.Chip.Log)}
	if r.Panic != nil {
		res.Key, res.What, res.Outcome = "panic", fmt.Sprintf("ReadDocument panicked: %v", r.Panic), "panic"
		return res
	}
	req := required(v, p)
	// files returned must be the chip's, always
	if r.Doc != nil {
		for _, d := range append(append([]int{}, p.DGList...), 0x1D, 0x1E, 0x1C, 0x11D) {
			got := e2e.FileBytes(&r.Doc.Document, d)
			var want []byte
			switch d {
			case 0x1C:
				want = p.CardAccess
			case 0x11D:
				want = p.CardSecurity
			default:
				want = p.Files[d]
			}
			if got != nil && !bytes.Equal(got, want) {
				res.Key, res.What, res.Outcome = fmt.Sprintf("file-differs/%x", d), fmt.Sprintf("file %x returned with %d bytes differs from the chip's (%d bytes)", d, len(got), len(want)), "wrong-file"
				return res
			}
		}
	}
	if r.Err != nil {
		if req {
			res.Key, res.What, res.Outcome = "read-failed-in-supported-region", fmt.Sprintf("read of a conforming chip failed: %v", r.Err), "failed"
			return res
		}
		res.Outcome = "error-outside-required-region"
		return res
	}
	if !req {
		res.Outcome = "ok-outside-required-region"
		// step outcomes still must not contradict the chip
	} else {
		res.Outcome = "ok"
	}
	s := r.Doc.Session
	t := p.Chip.Truth
	bac := s.BacResult != nil && s.BacResult.Success
	pace := s.PaceResult != nil && s.PaceResult.Success
	if bac != t.BACCompleted || pace != t.PACECompleted {
		res.Key, res.What = "access-control-misreported", fmt.Sprintf("reported BAC=%v PACE=%v, chip completed BAC=%v PACE=%v (paceErr=%v bacErr=%v)", bac, pace, t.BACCompleted, t.PACECompleted, s.PaceErr, s.BacErr)
		return res
	}
	if !req {
		return res
	}
	wantPace := v[0] != 0
	if wantPace != pace || (v[0] == 0) != bac {
		res.Key, res.What = "wrong-access-control-used", fmt.Sprintf("access arrangement %d: reported BAC=%v PACE=%v (paceErr=%v)", v[0], bac, pace, s.PaceErr)
		return res
	}
	// data groups
	for _, d := range p.DGList {
		if b.Opts.SkipImages && (d == 2 || d == 7) {
			if e2e.FileBytes(&r.Doc.Document, d) != nil {
				res.Key, res.What = "skipimages/image-dg-read", fmt.Sprintf("DG%d read although image reading was switched off", d)
				return res
			}
			continue
		}
		if e2e.FileBytes(&r.Doc.Document, d) == nil {
			res.Key, res.What = fmt.Sprintf("dg-missing/DG%d", d), fmt.Sprintf("DG%d is listed in the SOD and stored on the chip but was not read", d)
			return res
		}
	}
	if e2e.FileBytes(&r.Doc.Document, 0x1D) == nil || e2e.FileBytes(&r.Doc.Document, 0x1E) == nil {
		res.Key, res.What = "sod-or-com-missing", "EF.SOD / EF.COM not returned"
		return res
	}
	// chip authentication, strongest by precedence
	aa := s.ActiveAuthResult != nil && s.ActiveAuthResult.Success
	cam := s.PaceCamResult != nil && s.PaceCamResult.Success
	ca := s.ChipAuthResult != nil && s.ChipAuthResult.Success
	switch {
	case v[6] != 0:
		// a signature of more than 256 bytes (RSA-4096) does not fit a short-length response at all: a terminal has to
		// be told to use extended length with a per-read size of at least the signature (9303-11: extended length is
		// required for such keys); outside that the mechanism is not "supported" in the statement's sense
		// (and with a chip that takes reads of that size: a chip Le cap makes ReadFile fall back to 256/192/128, which
		// is then the session's per-read size)
		if v[6] == 3 && !aa && !(v[10] == 1 && maxLes[v[8]] >= 512 && caps[v[9]] == 0) {
			break
		}
		if !aa {
			res.Key, res.What = "aa-not-successful", fmt.Sprintf("chip supports AA (type %d) but it is not reported successful: %v", v[6], s.ActiveAuthErr)
			return res
		}
	case v[0] == 3 || v[0] == 4:
		if !cam {
			res.Key, res.What = "cam-not-successful", fmt.Sprintf("chip ran PACE-CAM but it is not reported successful: %v", s.PaceErr)
			return res
		}
	case v[5] != 0:
		if !ca {
			res.Key, res.What = "ca-not-successful", fmt.Sprintf("chip supports CA (arrangement %d) but it is not reported successful: %v", v[5], s.ChipAuthErr)
			return res
		}
	}
	if (aa && t.AASigned == 0) || (ca && !t.CACompleted) || (cam && !t.PACECAM) {
		res.Key, res.What = "mechanism-reported-but-not-run", fmt.Sprintf("aa=%v ca=%v cam=%v but chip truth %+v", aa, ca, cam, t)
		return res
	}
	pa := s.PassiveAuthResult != nil && s.PassiveAuthResult.Success
	if pa != (v[11] == 0) {
		res.Key, res.What = fmt.Sprintf("pa-verdict/trusted=%v", v[11] == 0), fmt.Sprintf("passive authentication success=%v with issuer trusted=%v: %v", pa, v[11] == 0, s.PassiveAuthErr)
		return res
	}
	if s.DocumentVerifyErr != nil {
		res.Key, res.What = "document-verify-error", fmt.Sprintf("completeness check fails for a complete genuine document: %v", s.DocumentVerifyErr)
		return res
	}
	return res
}

func run(c *vc.Ctx) {
	if err := refcrypto.SelfTest(); err != nil {
		c.HarnessError("refcrypto self-test: %v", err)
		return
	}
	if err := refpki.EnsureKeys(); err != nil {
		c.HarnessError("refpki keys: %v", err)
		return
	}
	seen := map[vec]bool{}
	do := func(sec string, v vec) {
		if !valid(v) || seen[v] {
			return
		}
		seen[v] = true
		if !c.Mine() {
			return
		}
		r := judge(build(v))
		c.Outcome(sec, r.Outcome)
		c.Distinct(fmt.Sprint(v))
		if r.Key != "" {
			c.Violation(sec, r.Key, r.What+fmt.Sprintf(" [vector %v = %s]", v, describe(v)), v, func() bool { return judge(build(v)).Key != "" })
		}
	}
	sec1 := "two-factor slices"
	c.SecBound(sec1, fmt.Sprintf("all value pairs of every two of %d dimensions around the baseline %v", len(dims), baseline()))
	for i := 0; i < len(dims); i++ {
		for j := i + 1; j < len(dims); j++ {
			for a := 0; a < dims[i].N; a++ {
				for b := 0; b < dims[j].N; b++ {
					if c.Expired() {
						c.SecNotExhaustive(sec1, fmt.Sprintf("deadline at pair (%s,%s)", dims[i].Name, dims[j].Name))
						goto slices
					}
					v := baseline()
					v[i], v[j] = a, b
					do(sec1, v)
				}
			}
		}
	}
slices:
	sec2 := "complete slice {DG subset x CA x AA x SkipImages}"
	c.SecBound(sec2, "64 optional-DG subsets x CA {none, bp256} x AA {none, EC P-256} x SkipImages {off,on} = all 256 subsets of {2,7,11,12,13,14,15,16} x 2")
	for sub := 0; sub < 64; sub++ {
		for _, ca := range []int{0, 2} {
			for _, aa := range []int{0, 4} {
				for sk := 0; sk < 2; sk++ {
					if c.Expired() {
						c.SecNotExhaustive(sec2, "deadline")
						goto s3
					}
					v := baseline()
					v[4], v[5], v[6], v[12] = sub, ca, aa, sk
					do(sec2, v)
				}
			}
		}
	}
s3:
	sec3 := "complete slice {size x maxLe x cap x extended}"
	c.SecBound(sec3, fmt.Sprintf("sizes %v x maxLe %v x caps %v x extended {off,on}", sizes, maxLes, caps))
	for sz := range sizes {
		for ml := range maxLes {
			for cp := range caps {
				for ex := 0; ex < 2; ex++ {
					if c.Expired() {
						c.SecNotExhaustive(sec3, "deadline")
						goto s4
					}
					v := baseline()
					v[7], v[8], v[9], v[10] = sz, ml, cp, ex
					do(sec3, v)
				}
			}
		}
	}
s4:
	if c.Thorough() {
		sec4 := "complete slice {access x curve x suite x password}"
		c.SecBound(sec4, "4 x 11 x 4 x 2")
		for a := 0; a < 5; a++ {
			for cu := 0; cu < 11; cu++ {
				for su := 0; su < 4; su++ {
					for pw := 0; pw < 2; pw++ {
						if c.Expired() {
							c.SecNotExhaustive(sec4, "deadline")
							return
						}
						v := baseline()
						v[0], v[2], v[3], v[1] = a, cu, su, pw
						do(sec4, v)
					}
				}
			}
		}
	}
	if c.Thorough() {
		sec5 := "three-factor slices over representative values"
		rep := func(d dim) []int {
			set := map[int]bool{0: true, d.Base: true, d.N - 1: true, d.N / 2: true}
			var out []int
			for v := 0; v < d.N; v++ {
				if set[v] {
					out = append(out, v)
				}
			}
			return out
		}
		c.SecBound(sec5, "every triple of the 13 dimensions x {first, baseline, middle, last} value of each")
		for i := 0; i < len(dims); i++ {
			for j := i + 1; j < len(dims); j++ {
				for k := j + 1; k < len(dims); k++ {
					for _, a := range rep(dims[i]) {
						for _, b := range rep(dims[j]) {
							for _, cc := range rep(dims[k]) {
								if c.Expired() {
									c.SecNotExhaustive(sec5, fmt.Sprintf("deadline at triple (%s,%s,%s)", dims[i].Name, dims[j].Name, dims[k].Name))
									return
								}
								v := baseline()
								v[i], v[j], v[k] = a, b, cc
								do(sec5, v)
							}
						}
					}
				}
			}
		}
	}
	// EF.DIR: 1..4 application templates (an LDS2 chip lists several), read under every access arrangement
	{
		secD := "EF.DIR with 1..4 application templates"
		c.SecBound(secD, "EF.DIR listing 1, 2, 3 or 4 applications x {BAC, PACE-GM+BAC, PACE-CAM}: the returned EF.DIR is byte-identical to the chip's")
		aids := [][]byte{{0xA0, 0, 0, 2, 0x47, 0x10, 0x01}, {0xA0, 0, 0, 2, 0x47, 0x20, 0x01}, {0xA0, 0, 0, 2, 0x47, 0x20, 0x02}, {0xA0, 0, 0, 2, 0x47, 0x20, 0x03}}
		for n := 1; n <= 4; n++ {
			for acc := 0; acc < 3; acc++ {
				if !c.Mine() {
					continue
				}
				cfg := perso.Config{DGs: []int{2}}
				switch acc {
				case 0:
					cfg.BAC = true
				case 1:
					cfg.BAC = true
					cfg.PACE = []refchip.PACEProto{{Mapping: 2, Cipher: 2, ParamID: 13}}
				default:
					cfg.PACE = []refchip.PACEProto{{Mapping: 6, Cipher: 2, ParamID: 13}}
				}
				p := perso.Build(cfg)
				dir := reflds.BuildDIR(aids[:n]).Bytes
				p.Chip.AddMF(0x2F00, 0x1E, dir, refchip.AccFree)
				p.Chip.MFFilesFromApplication = true // the library reads EF.DIR after selecting the LDS application
				r := e2e.Read(p, e2e.ReadOpts{})
				c.Eval(1)
				rec := map[string]any{"kind": "dir", "applications": n, "access": acc}
				switch {
				case r.Panic != nil || r.Err != nil || r.Doc == nil:
					c.Outcome(secD, "read-failed")
					c.Violation(secD, "dir/read-failed", fmt.Sprintf("read of a conforming chip with an EF.DIR of %d application(s) failed: %v %v", n, r.Panic, r.Err), rec, nil)
				case r.Doc.Document.Mf.Dir == nil:
					c.Outcome(secD, "dir-missing")
					c.Violation(secD, "dir/not-returned", fmt.Sprintf("EF.DIR (%d applications) is on the chip but not in the document", n), rec, nil)
				case !bytes.Equal(r.Doc.Document.Mf.Dir.RawData, dir):
					c.Outcome(secD, "dir-differs")
					c.Violation(secD, "dir/returned-file-differs-from-the-chips/several-applications", fmt.Sprintf("EF.DIR with %d applications: the chip stores %d bytes (%x), the document returns %d bytes (%x)", n, len(dir), dir, len(r.Doc.Document.Mf.Dir.RawData), r.Doc.Document.Mf.Dir.RawData), rec, nil)
				default:
					c.Outcome(secD, "identical")
				}
				c.Distinct(fmt.Sprintf("dir/%d/%d", n, acc))
			}
		}
	}
	if c.Shard == 0 {
		v := baseline()
		v[0], v[6], v[7], v[8] = 3, 3, 11, 13
		c.Sample(map[string]any{"vector": v, "meaning": describe(v)})
	}
}

func describe(v vec) string {
	acc := []string{"BAC only", "PACE-GM+BAC", "PACE-GM only", "PACE-CAM", "PACE-CAM + GM-3DES on another parameter id"}[v[0]]
	var dgs []int
	for i, d := range dgPool {
		if v[4]&(1<<i) != 0 {
			dgs = append(dgs, d)
		}
	}
	return fmt.Sprintf("%s pwd=%s param=%d cipher=%d optionalDGs=%v ca=%d aa=%d dg13size=%d maxLe=%d cap=%d extended=%v trusted=%v skipImages=%v",
		acc, []string{"MRZ", "CAN"}[v[1]], 8+v[2], 1+v[3], dgs, v[5], v[6], sizes[v[7]], maxLes[v[8]], caps[v[9]], v[10] == 1, v[11] == 0, v[12] == 1)
}

func replay(c *vc.Ctx, raw json.RawMessage) string {
	var doc struct {
		Section string `json:"section"`
		Case    vec    `json:"case"`
	}
	if err := json.Unmarshal(raw, &doc); err != nil {
		return err.Error()
	}
	refpki.EnsureKeys()
	r := judge(build(doc.Case))
	if r.Key != "" {
		c.Violation(doc.Section, r.Key, r.What, doc.Case, nil)
	}
	return fmt.Sprintf("vector %v (%s) -> %s after %d exchanges; verdict: %s %s", doc.Case, describe(doc.Case), r.Outcome, r.Exchanges, r.Key, r.What)
}
