// Package all links every finished check into vcheck.
package all

import (
	_ "verif/checks/c16"
	_ "verif/checks/c17"
	_ "verif/checks/c18"
	_ "verif/checks/c03"
	_ "verif/checks/c10"
)
