#!/bin/bash
# Run once after a fresh restore, offline. Builds the checker and warms the build cache.
set -eu
cd /verif
export GOFLAGS=-mod=mod GOPROXY=off
export GOCACHE=${GOCACHE:-/verif/cache/gocache}
mkdir -p /verif/bin /verif/out /verif/cache /verif/evidence
python3 /verif/tools/genall.py
go build -o /verif/bin/vcheck ./cmd/vcheck
/verif/bin/vcheck setup
/verif/bin/vcheck list
