#!/bin/bash
# usage: run_c20.sh [quick|thorough]
#
# C20 (shared readers, verifiers and trust stores are safe under concurrency) needs an INSTRUMENTED build of
# the library, so it has its own runner:
#   1. cmd/vinstrument derives instrumented copies of the CURRENT /repo sources (reader, verifier, mobile,
#      cms certificate pools) into a scratch directory under /tmp and writes a `go build -overlay` file
#      (/repo is never written);
#   2. cmd/vcheck20 is built twice with that overlay, in parallel: plain (schedule exploration) and -race
#      (free-running pass);
#   3. the free-running pass is started in the background: the same scenario bodies on real goroutines, shim in
#      pass-through mode, C20_RACE_ITER (default 200) iterations per scenario; race reports go to
#      /verif/out/c20_race/;
#   4. `vcheck20 run C20 <tier>`: schedule exploration over 16 worker processes; worker 0 waits for step 3 and
#      folds its result into the same report. Evidence: /verif/evidence/C20.json. Every violation class (non-sequential
#      outcome, deadlock, panic, trust store loaded twice, data race) prints
#      `VIOLATION property=C20 replay=<file>`; replay a schedule with `run_c20.sh replay <file>`.
# Exit: 0 clean (also when a deadline cut the exploration short: exhaustive=false), 1 violation, 2 harness error.
#
# Detection demos / what-if runs on a modified COPY of a source file (repo untouched):
#   C20_SRC_OVERLAY="reader/reader.go=/path/patched_reader.go" ./run_c20.sh quick
set -u
cd /verif
export GOFLAGS=-mod=mod GOPROXY=off
export GOCACHE=${GOCACHE:-/verif/cache/gocache}
TIER=${1:-${VERIF_TIER:-quick}}
mkdir -p /verif/out /verif/cache /verif/evidence
T=$(mktemp -d /tmp/vc20.XXXXXX)
RACEDIR=${C20_RACE_DIR:-/verif/out/c20_race}
trap 'rm -rf "$T"' EXIT
t0=$(date +%s)
say() { echo "[run_c20 +$(( $(date +%s) - t0 ))s] $*" >&2; }

if ! go build -o "$T/vinstrument" ./cmd/vinstrument 2>"$T/b0.log"; then cat "$T/b0.log" >&2; echo "HARNESS-ERROR vinstrument build failed" >&2; exit 2; fi
ARGS=()
IFS=';' read -ra OV <<<"${C20_SRC_OVERLAY:-}"
for o in "${OV[@]}"; do [ -n "$o" ] && ARGS+=(-src-overlay "$o"); done
mkdir -p "$T/inst"
if ! "$T/vinstrument" -out "$T/inst" "${ARGS[@]}" >/dev/null; then echo "HARNESS-ERROR instrumentation failed" >&2; exit 2; fi
OVL="$T/inst/overlay.json"

if [ "$TIER" = replay ]; then
  go build -tags verifinst -overlay "$OVL" -o "$T/vcheck20" ./cmd/vcheck20 || { echo "HARNESS-ERROR build failed" >&2; exit 2; }
  "$T/vcheck20" replay "${2:?file}"; exit $?
fi

say "building vcheck20 (plain and -race) with the overlay"
go build -tags verifinst -overlay "$OVL" -o "$T/vcheck20" ./cmd/vcheck20 2>"$T/b1.log" & p1=$!
go build -race -tags verifinst -overlay "$OVL" -o "$T/vcheck20race" ./cmd/vcheck20 2>"$T/b2.log" & p2=$!
wait $p1; r1=$?
wait $p2; r2=$?
if [ $r1 -ne 0 ] || [ $r2 -ne 0 ]; then
  # a tree that does not compile (or uses a sync type the shim lacks) is not a property violation
  cat "$T/b1.log" "$T/b2.log" >&2; echo "HARNESS-ERROR instrumented build failed" >&2; exit 2
fi

say "free-running -race pass (background, 3 processes) + schedule exploration ($TIER)"
rm -rf "$RACEDIR"; mkdir -p "$RACEDIR"
ITER=${C20_RACE_ITER:-200}
(
  pids=()
  for grp in S1,S2,S4 S3,S8,S9 S5,S5f,S6,S7; do
    C20_ONLY=$grp GORACE="log_path=$RACEDIR/race.log halt_on_error=0 exitcode=0 history_size=3" \
      "$T/vcheck20race" race "$ITER" >"$RACEDIR/stdout.$grp" 2>"$RACEDIR/stderr.$grp" & pids+=($!)
  done
  worst=0
  for p in "${pids[@]}"; do wait $p; r=$?; [ $r -gt $worst ] && worst=$r; done
  cat "$RACEDIR"/stdout.* >"$RACEDIR/stdout"
  if [ $worst -le 1 ]; then echo "done $ITER iterations per scenario, exit=$worst" >"$RACEDIR/status"; else echo "crashed exit=$worst" >"$RACEDIR/status"; fi
) & racepid=$!

# workers inherit the address-space cap: a runaway allocation kills one worker (reported), not the sandbox
( ulimit -v ${VERIF_ULIMIT_KB:-12000000} 2>/dev/null || true
  C20_RACE_DIR="$RACEDIR" "$T/vcheck20" run C20 "$TIER" )
rc=$?
wait $racepid
grep -h "race pass:" "$RACEDIR"/stderr.* >&2
grep -q "^crashed" "$RACEDIR/status" && grep -h -A6 "^fatal error\|^panic:" "$RACEDIR"/stderr.* | head -n 24 >&2

# vacuity guard: schedules and distinct observed outcomes per scenario, from the evidence just written
EV=${VERIF_EVIDENCE_DIR:-/verif/evidence}/C20.json
if [ $rc -ne 2 ] && [ -f "$EV" ]; then python3 - "$EV" >&2 <<'PY'
import json,sys,re
c=json.load(open(sys.argv[1]))['coverage']
secs={s['name']:s for s in c['sections']}
for sc in c.get('scenarios',[]):
    i=sc['id']
    if sc.get('free_running_only'):
        print(f"  {i}: free-running -race pass only"); continue
    line=[]
    for g in ('sync','stmt'):
        s=secs.get(f'{i} {g}-granularity schedules')
        if s:
            o=s.get('outcomes') or {}
            line.append(g+': '+' '.join(f"P{k[-1]}={o[k]}" for k in sorted(o))+('' if s['exhaustive'] else ' (incomplete)'))
    out=(secs.get(f'{i} observed outcomes') or {}).get('outcomes') or {}
    cont=(secs.get(f'{i} contention') or {}).get('outcomes') or {}
    waited=sum(v for k,v in cont.items() if k.startswith('some'))
    print(f"  {i}: {' | '.join(line)} | distinct outcomes observed={len(out)} of {sc['sequential_orders_distinct_outcomes']} sequential | schedules with a blocked thread={waited}")
print("  race pass:", c.get('race_pass'))
PY
fi
say "done (exit $rc)"
exit $rc
